"""Recording the repository's own test-suite (record_plugin) and validating the traces
with TLC against spec/TraceGeneric.tla."""
from __future__ import annotations

import copy as _copy
import json
import os
import re
import subprocess
import sys
import time

from . import tlc

CFG = "SPECIFICATION GSpec\nINVARIANT Accepted\nPOSTCONDITION AllConsumed\nCHECK_DEADLOCK FALSE\n"


def record_suite(select=None, timeout=1800):
    """run /repo's tests (unmodified) under the recorder -> (traces dict, pytest summary line)"""
    src = os.environ.get("SHAPEPY_SRC", "/repo/src")
    repo = os.path.dirname(src)
    d = os.path.join(tlc.BUILD, "traces")
    os.makedirs(d, exist_ok=True)
    out = os.path.join(d, "suite_traces.json")
    if os.path.exists(out):
        os.remove(out)
    env = dict(os.environ, SHAPEPY_VERIF_TRACE="1", SHAPEPY_VERIF_TRACE_OUT=out, MPLBACKEND="Agg",
               PYTHONPATH=src + os.pathsep + os.path.join(tlc.VERIF, "harness"))
    cmd = [sys.executable, "-m", "pytest", "-q", "-p", "no:cacheprovider", "-p", "vshape.record_plugin", "--timeout=900"] + (select or ["tests"])
    p = subprocess.run(cmd, cwd=repo, env=env, stdout=subprocess.PIPE, stderr=subprocess.STDOUT, text=True, timeout=timeout)
    tail = [l for l in p.stdout.strip().splitlines() if l.strip()][-1] if p.stdout.strip() else ""
    if not os.path.exists(out):
        raise tlc.MachineryError("the recorder produced no trace file:\n" + p.stdout[-1500:])
    return json.load(open(out)), tail


def validate(data, tag="MCTG", timeout=1200):
    tlc.prepare()
    d = os.path.join(tlc.BUILD, "traces")
    os.makedirs(d, exist_ok=True)
    path = os.path.join(d, tag + ".json")
    json.dump(data, open(path, "w"))
    tlc.wrapper(tag, ["TraceGeneric"])
    res = tlc.run(tag, None, cfg_text=CFG, workers=1, timeout=timeout, tag=tag, env={"TRACE_FILE": path}, extra=["-continue"])
    rejected = []
    for blk in res.out.split("Error: Invariant Accepted is violated.")[1:]:
        tix = re.findall(r"/\\ tix = (\d+)", blk)
        lix = re.findall(r"/\\ lix = (\d+)", blk)
        if tix and lix:
            rejected.append((int(tix[-1]), int(lix[-1])))
    res.rejected = sorted(set(rejected))
    res.post_bad = "Postcondition AllConsumed" in res.out and "is false" in res.out
    other = res.out.replace("Error: Invariant Accepted is violated.", "").replace("Error: Postcondition AllConsumed", "")
    res.ok = "Finished in" in res.out and not res.rejected and not res.post_bad and "Error: " not in other
    res.clean = "Finished in" in res.out and "Error: " not in other
    return res


def corrupt(data):
    """negative controls: one event of an accepted trace changed to something impossible"""
    out = []
    for how in ("result-gains-a-point", "operand-changes", "copy-differs"):
        for t in data["traces"]:
            evs = t["events"]
            ks = [k for k, e in enumerate(evs) if e.get("out") == "returned" and (
                (how == "copy-differs" and e["ev"] == "inv") or (how != "copy-differs" and e["ev"] == "bin")) and "res" in e and not e["res"]["unk"]]
            if not ks:
                continue
            t2 = _copy.deepcopy(t)
            e = t2["events"][ks[0]]
            cl = set(range(1, data["nw"] + 1)) - set(e["res"]["unk"]) - {x for dsc in e["pre"] for x in dsc["unk"]}
            if how == "operand-changes":
                dsc = e["post"][0]
                free = sorted(cl - set(dsc["sig"]) - set(dsc["unk"]))
                if not free:
                    continue
                dsc["sig"] = sorted(dsc["sig"] + [free[0]])
            else:
                free = sorted(cl - set(e["res"]["sig"]))
                if not free:
                    continue
                e["res"]["sig"] = sorted(e["res"]["sig"] + [free[0]])
            t2["corrupted"] = how
            out.append(t2)
            break
    return {"nw": data["nw"], "traces": out}
