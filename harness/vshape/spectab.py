"""Tables exported by TLC from Plane.tla (via PlaneExport.tla), with a cache keyed
by the hash of the specification text, and the cross-check against the
independent cell-level computations of universe.Universe."""
from __future__ import annotations

import hashlib
import json
import os

from . import tlc
from .universe import Universe


class SpecTables:
    def __init__(self, uni: Universe, data: dict):
        self.u = uni
        self.d = data
        self.regions = data["regions"]
        self.expseq = [tuple(e) for e in data["expseq"]]
        self.pairs = data["pairs"]

    def row(self, reg):
        return self.regions[reg]

    def kind(self, reg):
        return self.regions[reg]["kind"]

    def kindset(self, reg):
        r = self.regions[reg]
        return {"S", "C", "D"} if r["pinch"] else {r["kind"]}

    def pinch(self, reg):
        return self.regions[reg]["pinch"]

    def loops(self, reg):
        return [tuple(tuple(p) for p in lp) for lp in self.regions[reg]["loops"]]

    def nloops(self, reg):
        return self.regions[reg]["nloops"]

    def mom(self, reg, a, b):
        return self.regions[reg]["mom"][self.expseq.index((a, b))]

    def passmap(self, reg):
        """pass[(i,j)]"""
        rows = self.regions[reg]["pass"]
        return {
            (i, j): rows[j][i]
            for j in range(len(rows))
            for i in range(len(rows[j]))
        }

    def cls(self, ra, rb):
        return self.pairs[ra][rb]["cls"]

    def cross(self, ra, rb):
        return [tuple(p) for p in self.pairs[ra][rb]["cross"]]


def _spec_hash(u: Universe):
    h = hashlib.sha256()
    for fn in ("Plane.tla", "PlaneExport.tla"):
        h.update(open(os.path.join(tlc.SPEC, fn), "rb").read())
    h.update(u.mc_text().encode())
    return h.hexdigest()[:16]


def load(name, *, refresh=False) -> SpecTables:
    u = Universe(name)
    tdir = tlc.TABLES
    os.makedirs(tdir, exist_ok=True)
    path = os.path.join(tdir, "%s.%s.json" % (name, _spec_hash(u)))
    if refresh or not os.path.exists(path):
        tlc.prepare()
        root = "MCE_" + name
        tlc.wrapper(root, ["PlaneExport", "MC_" + name])
        tmp = path + ".tmp"
        res = tlc.run(
            root,
            None,
            workers=1,
            timeout=900,
            env={"VERIF_UNIVERSE": name, "VERIF_OUT": tmp},
            cfg_text=tlc.PLANE_CONSTS,
        )
        if not res.ok or not os.path.exists(tmp):
            raise tlc.MachineryError(
                "PlaneExport failed for %s:\n%s" % (name, res.error_text())
            )
        os.replace(tmp, path)
    data = json.load(open(path))
    st = SpecTables(u, data)
    crosscheck(st)
    return st


def crosscheck(st: SpecTables):
    """TLC's tables against the independent cell-level computation"""
    u = st.u
    d = st.d
    bad = []
    if d["N"] != u.N or d["NF"] != u.nfaces:
        bad.append("N/NF")
    if [sorted(f) for f in u.faces] != [sorted(f) for f in d["faces"]]:
        bad.append("faces")
    if d["atoms"] != [u.atom_reg(k + 1) for k in range(len(u.atoms))]:
        bad.append("atoms")
    for reg in range(u.NR):
        row = st.row(reg)
        if row["kind"] != u.kind(reg):
            bad.append(("kind", reg, row["kind"], u.kind(reg)))
        pp = sorted(tuple(p) for p in row["pinchpts"])
        if pp != sorted(u.pinch_points(reg)):
            bad.append(("pinch", reg))
        nc, nco = u.ncomps(reg)
        if reg not in (0, u.full) and (row["ncomp"], row["nco"]) != (nc, nco):
            bad.append(("ncomp", reg))
        if not row["pinch"]:
            if sorted(st.loops(reg)) != u.loops(reg):
                bad.append(("loops", reg, st.loops(reg), u.loops(reg)))
        for k, (a, b) in enumerate(st.expseq):
            if row["mom"][k] != u.moment_scaled(reg, a, b):
                bad.append(("mom", reg, a, b))
                break
    if bad:
        raise tlc.MachineryError(
            "spec tables disagree with the independent computation on %s: %r"
            % (u.name, bad[:5])
        )


if __name__ == "__main__":
    import sys
    import time

    for n in sys.argv[1:]:
        t0 = time.time()
        st = load(n)
        print(n, "ok", "%.1fs" % (time.time() - t0), st.u.NR, "regions")
