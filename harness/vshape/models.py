"""The standard TLC runs used by the checks."""
from __future__ import annotations

import hashlib
import json
import os
import shutil

from . import tlc, tlaparse
from .universe import Universe

ALL_THMS = [
    "ThmGreen", "ThmMomCompl", "ThmLoops", "ThmLoopCorners", "ThmKindShape",
    "ThmComplRow", "ThmSingletonLaws", "ThmInclExcl", "ThmParity", "ThmSubset", "ThmXorTouch", "ThmBdryIn", "ThmXings", "ThmWindingTable", "ThmContainsSimple", "ThmGrouping",
]


def _tla_set(items):
    return "{" + ", ".join('"%s"' % i for i in sorted(items)) + "}"


def plane_thm(uname, invariants=None, timeout=900):
    tlc.prepare()
    root = "MCT_" + uname
    tlc.wrapper(root, ["PlaneThm", "MC_" + uname])
    inv = invariants or ALL_THMS
    cfg = tlc.PLANE_CONSTS + "SPECIFICATION TSpec\n" + "".join("INVARIANT %s\n" % i for i in inv) + "CHECK_DEADLOCK FALSE\n"
    return tlc.run(root, None, cfg_text=cfg, timeout=timeout, tag="%s_%s" % (root, hashlib.md5(",".join(inv).encode()).hexdigest()[:6]))


def _sys_module(root, base, uname, *, regs, maxobj, ops, gens, maxframe, acts, view=True):
    txt = (
        "---- MODULE %s ----\nEXTENDS %s, MC_%s\n"
        "SysRegs == 1..%d\nSysMaxObj == %d\nSysOps == %s\nSysGens == %s\nSysMaxFrame == %d\nSysActs == %s\n"
        "SysView == <<heap, regs>>\n====\n"
    ) % (root, base, uname, regs, maxobj, _tla_set(ops), _tla_set(gens), maxframe, _tla_set(acts))
    path = os.path.join(tlc.BSPEC, root + ".tla")
    if not os.path.exists(path) or open(path).read() != txt:
        open(path, "w").write(txt)


SYS_CONSTS = tlc.PLANE_CONSTS + """  Regs <- SysRegs
  MaxObj <- SysMaxObj
  Ops <- SysOps
  Gens <- SysGens
  MaxFrame <- SysMaxFrame
  Acts <- SysActs
"""
SYS_PROPS = ["OperandsUnchanged", "FreshResults", "ResultIsSetAlgebra", "SubsetLaw"]
SYS_INVS = ["TypeOK", "Canonical"]


def shapesys_check(uname, *, regs=2, maxobj=4, ops=("or", "and", "sub", "xor"), gens=(), maxframe=0,
                   acts=("make", "bin", "inv", "copy", "invert", "alias", "query"), props=None, invs=None, timeout=900, tag=None):
    tlc.prepare()
    root = tag or ("MCS_%s_r%d" % (uname, regs))
    _sys_module(root, "ShapeSys", uname, regs=regs, maxobj=maxobj, ops=ops, gens=gens, maxframe=maxframe, acts=acts)
    cfg = SYS_CONSTS + "SPECIFICATION SSpec\n"
    cfg += "".join("INVARIANT %s\n" % i for i in (invs if invs is not None else SYS_INVS))
    cfg += "".join("PROPERTY %s\n" % p for p in (props if props is not None else SYS_PROPS))
    cfg += "VIEW SysView\nCHECK_DEADLOCK FALSE\n"
    return tlc.run(root, None, cfg_text=cfg, timeout=timeout, tag=root)


def shapesys_simulate(uname, *, num, depth, seed, regs=3, maxobj=6, ops=("or", "and", "sub", "xor"), gens=(), maxframe=0,
                      acts=("make", "bin", "inv", "copy", "invert", "alias", "query"), timeout=600, tag=None, constraint=None):
    """-> (TlcResult, list of behaviours [(name, args, state)])"""
    tlc.prepare()
    root = tag or ("MCSIM_%s" % uname)
    _sys_module(root, "ShapeSys", uname, regs=regs, maxobj=maxobj, ops=ops, gens=gens, maxframe=maxframe, acts=acts)
    cfg = SYS_CONSTS + "SPECIFICATION SSpec\nINVARIANT TypeOK\nINVARIANT Canonical\nCHECK_DEADLOCK FALSE\n"
    if constraint:
        cfg += "CONSTRAINT %s\n" % constraint
    out = os.path.join(tlc.BUILD, "sim", root)
    shutil.rmtree(out, ignore_errors=True)
    os.makedirs(out, exist_ok=True)
    res = tlc.run(root, None, cfg_text=cfg, workers=1, timeout=timeout, tag=root,
                  extra=["-simulate", "file=%s/tr,num=%d" % (out, num), "-depth", str(depth), "-seed", str(seed)])
    behs = []
    for fn, steps in tlaparse.load_behaviours(out):
        behs.append(steps)
    shutil.rmtree(out, ignore_errors=True)
    # simulation mode reports "states checked"
    import re
    m = re.search(r"(\d+) states checked", res.out)
    if m:
        res.generated = int(m.group(1))
        res.distinct = max(res.distinct, sum(len(b) for b in behs))
    res.ok = res.ok or ("Finished in" in res.out and "Error" not in res.out)
    return res, behs


def _hash(uname, files):
    h = hashlib.sha256()
    for fn in files:
        h.update(open(os.path.join(tlc.SPEC, fn), "rb").read())
    h.update(Universe(uname).mc_text().encode())
    return h.hexdigest()[:16]


def pair_rows(uname, timeout=1800):
    """one-step Bin behaviours computed by TLC (ShapeSysExport), cached by spec hash"""
    d = tlc.TABLES
    os.makedirs(d, exist_ok=True)
    path = os.path.join(d, "pairs_%s.%s.json" % (uname, _hash(uname, ["Plane.tla", "ShapeSys.tla", "ShapeSysExport.tla"])))
    if not os.path.exists(path):
        tlc.prepare()
        from concurrent.futures import ThreadPoolExecutor

        def one(op):
            root = "MCX_%s_%s" % (uname, op)
            _sys_module(root, "ShapeSysExport", uname, regs=3, maxobj=5, ops=("or", "and", "sub", "xor"), gens=(), maxframe=0, acts=())
            cfg = SYS_CONSTS + "SPECIFICATION SSpec\nCHECK_DEADLOCK FALSE\n"
            tmp = "%s.%s.tmp" % (path, op)
            res = tlc.run(root, None, cfg_text=cfg, workers=1, timeout=timeout, env={"VERIF_UNIVERSE": uname, "VERIF_OUT": tmp, "VERIF_OP": op}, tag=root)
            if not res.ok or not os.path.exists(tmp):
                raise tlc.MachineryError("ShapeSysExport failed for %s/%s:\n%s" % (uname, op, res.error_text()))
            d = json.load(open(tmp))
            os.remove(tmp)
            return d["rows"][0]

        with ThreadPoolExecutor(4) as ex:
            parts = list(ex.map(one, ("or", "and", "sub", "xor")))
        with open(path + ".tmp", "w") as fh:
            json.dump({"name": uname, "rows": parts}, fh)
        os.replace(path + ".tmp", path)
    data = json.load(open(path))
    rows = []
    for per_op in data["rows"]:
        rows.extend(per_op)
    rows.sort(key=lambda r: (r["op"], r["a"], r["b"]))
    return rows


SC_PARAMS = "{<<0,1>>, <<1,4>>, <<1,3>>, <<1,2>>, <<2,3>>, <<1,1>>}"


def _sc_setup(ns, maxcalls, tag):
    tlc.prepare()
    open(os.path.join(tlc.BSPEC, tag + ".tla"), "w").write("---- MODULE %s ----\nEXTENDS SplitClean\nMCParams == %s\n====\n" % (tag, SC_PARAMS))
    return ("CONSTANTS\n  NS = %d\n  Den = 12\n  Params <- MCParams\n  MaxCalls = %d\nSPECIFICATION SCSpec\nINVARIANT TypeOK\nINVARIANT Tiling\n" % (ns, maxcalls))


def splitclean_check(ns=4, maxcalls=2):
    tag = "MCSC_%d_%d" % (ns, maxcalls)
    cfg = _sc_setup(ns, maxcalls, tag) + "PROPERTY SplitMonotone\nPROPERTY CleanRestores\nPROPERTY CleanIdempotent\nPROPERTY IgnoredNoop\nCHECK_DEADLOCK FALSE\n"
    return tlc.run(tag, None, cfg_text=cfg, timeout=900, tag=tag)


def splitclean_simulate(ns, *, num, depth, seed):
    tag = "MCSCS_%d" % ns
    cfg = _sc_setup(ns, depth, tag) + "CHECK_DEADLOCK FALSE\n"
    out = os.path.join(tlc.BUILD, "sim", tag)
    shutil.rmtree(out, ignore_errors=True)
    os.makedirs(out, exist_ok=True)
    res = tlc.run(tag, None, cfg_text=cfg, workers=1, timeout=600, tag=tag,
                  extra=["-simulate", "file=%s/tr,num=%d" % (out, num), "-depth", str(depth + 1), "-seed", str(seed)])
    behs = [steps for fn, steps in tlaparse.load_behaviours(out)]
    shutil.rmtree(out, ignore_errors=True)
    import re
    m = re.search(r"(\d+) states checked", res.out)
    if m:
        res.generated = int(m.group(1))
        res.distinct = sum(len(b) for b in behs)
    res.ok = "Finished in" in res.out and "Error" not in res.out
    return res, behs


def followpath(uname, invariants=("ThmFollowOr", "ThmFollowAnd", "ThmFollowSub"), timeout=1500, tag=None):
    """code-shaped model of the path-following operators against Plane on all region pairs"""
    tlc.prepare()
    root = "MCF_" + uname
    tlc.wrapper(root, ["FollowPath", "MC_" + uname])
    cfg = tlc.PLANE_CONSTS + "SPECIFICATION FSpec\n" + "".join("INVARIANT %s\n" % i for i in invariants) + "CHECK_DEADLOCK FALSE\n"
    return tlc.run(root, None, cfg_text=cfg, timeout=timeout, tag=tag or root)
