"""Grid universes: the catalogue, the MC_*.tla generator, and an *independent*
re-computation (cell level, flood fill / contour tracing) of everything the TLA+
module Plane computes on the patch graph.  The independent computation is used
only to cross-check the tables exported by TLC (a disagreement is a machinery
failure, exit 2) -- expected values used in conformance come from the TLC export.
"""
from __future__ import annotations

import json
import os
from fractions import Fraction
from itertools import product

# ---------------------------------------------------------------------------
# catalogue.  A universe: N cells per side (cells (1..N)^2, grid lines 0..N, the
# outer ring of cells belongs to the unbounded face), atoms = unions of
# rectangles (i0, j0, i1, j1) in grid-line coordinates, XS/YS = integer
# coordinates of the grid lines used by TLC (|x| <= 9 keeps 32-bit moments).
# gp = True: atoms are in general position (all boundary lines distinct).
# ---------------------------------------------------------------------------


def _coords(n, salt):
    """strictly increasing non-uniform integers within [-9, 9], deterministic"""
    st = salt * 2654435761 % (2**32)
    gaps = []
    for k in range(n):
        st = (st * 1103515245 + 12345) % (2**31)
        gaps.append(1 + (st >> 16) % 2)
    while sum(gaps) > 17:
        gaps[gaps.index(2)] = 1
    st = (st * 1103515245 + 12345) % (2**31)
    x0 = -(sum(gaps) // 2) - (st >> 16) % 2
    x0 = max(x0, -9)
    xs = [x0]
    for g in gaps:
        xs.append(xs[-1] + g)
    assert all(-9 <= x <= 9 for x in xs), xs
    return xs


CATALOGUE = {
    # two rectangles, every combinatorial configuration in general position
    "U2disj": dict(N=8, atoms=[[(1, 1, 3, 4)], [(5, 2, 7, 6)]], gp=True),
    "U2nest": dict(N=8, atoms=[[(1, 1, 7, 6)], [(2, 3, 5, 5)]], gp=True),
    "U2corner": dict(N=8, atoms=[[(1, 1, 4, 5)], [(2, 3, 7, 7)]], gp=True),
    "U2bite": dict(N=8, atoms=[[(1, 1, 5, 7)], [(3, 2, 7, 5)]], gp=True),
    "U2cross": dict(N=8, atoms=[[(1, 3, 7, 5)], [(3, 1, 5, 7)]], gp=True),
    # non-convex atoms
    "U2notch": dict(
        N=9, atoms=[[(1, 1, 7, 3), (1, 3, 3, 7)], [(4, 4, 6, 6)]], gp=True
    ),
    "U2comb": dict(
        N=10,
        atoms=[
            [(2, 1, 8, 2), (2, 2, 3, 7), (4, 2, 5, 7), (7, 2, 8, 7)],
            [(1, 3, 9, 5)],
        ],
        gp=True,
    ),
    # three atoms
    "U3venn": dict(
        N=8,
        atoms=[[(1, 1, 5, 4)], [(3, 2, 7, 6)], [(2, 3, 4, 7)]],
        gp=True,
    ),
    "U3hole": dict(
        N=10,
        atoms=[[(1, 1, 9, 8)], [(3, 3, 6, 6)], [(4, 2, 5, 9)]],
        gp=True,
    ),
    "U3chain": dict(
        N=10,
        atoms=[[(1, 2, 4, 6)], [(3, 1, 7, 4)], [(6, 3, 9, 8)]],
        gp=True,
    ),
    # a far component, a near component and a bar that crosses only the near one (operands with
    # several curves of which some are box-separated from the other operand)
    "U3far": dict(N=11, atoms=[[(1, 1, 4, 5)], [(6, 6, 9, 9)], [(7, 3, 8, 10)]], gp=True),
    # a ring (rectangle with a hole) and a small rectangle inside the ring
    "U3dot": dict(N=10, atoms=[[(1, 1, 9, 9)], [(2, 2, 5, 5)], [(6, 6, 8, 8)]], gp=True),
    # four nested rectangles: rings inside the holes of rings (nesting depth 4)
    "U4nest": dict(
        N=10,
        atoms=[[(1, 1, 9, 9)], [(2, 2, 8, 7)], [(3, 3, 7, 6)], [(4, 4, 6, 5)]],
        gp=True,
    ),
    # four bars forming a ring (their union has a hole)
    "U4ring": dict(
        N=12,
        atoms=[
            [(1, 3, 9, 4)],
            [(7, 1, 8, 10)],
            [(3, 8, 11, 9)],
            [(4, 2, 5, 11)],
        ],
        gp=True,
    ),
}


class Universe:
    def __init__(self, name, spec=None):
        spec = spec or CATALOGUE[name]
        self.name = name
        self.N = spec["N"]
        N = self.N
        self.atom_rects = spec["atoms"]
        self.atoms = []
        for rects in self.atom_rects:
            cells = set()
            for i0, j0, i1, j1 in rects:
                assert 1 <= i0 < i1 <= N - 1 and 1 <= j0 < j1 <= N - 1, rects
                for i in range(i0 + 1, i1 + 1):
                    for j in range(j0 + 1, j1 + 1):
                        cells.add((i, j))
            self.atoms.append(frozenset(cells))
        salt = sum(ord(c) for c in name)
        self.XS = spec.get("XS") or _coords(N, salt)
        self.YS = spec.get("YS") or _coords(N, salt + 3)
        self.cells = [(i, j) for i in range(1, N + 1) for j in range(1, N + 1)]
        self.sig = {
            c: frozenset(k + 1 for k, a in enumerate(self.atoms) if c in a)
            for c in self.cells
        }
        faces = sorted(set(self.sig.values()), key=lambda f: (len(f), sorted(f)))
        assert faces[0] == frozenset()
        self.faces = faces  # bit k  <->  faces[k]
        self.nfaces = len(faces)
        self.NR = 2 ** self.nfaces
        self.full = self.NR - 1
        self.face_index = {f: k for k, f in enumerate(faces)}
        self.cell_face = {c: self.face_index[self.sig[c]] for c in self.cells}
        self._cache = {}

    # ---- region coding -------------------------------------------------
    def atom_reg(self, k):
        """region int of atom k (1-based)"""
        return sum(1 << i for i, f in enumerate(self.faces) if k in f)

    def cells_of(self, reg):
        return frozenset(c for c in self.cells if (reg >> self.cell_face[c]) & 1)

    def unbounded(self, reg):
        return bool(reg & 1)

    # ---- independent cell-level computations ---------------------------
    @staticmethod
    def _components(cellset):
        cellset = set(cellset)
        comps = []
        while cellset:
            c0 = cellset.pop()
            comp = {c0}
            stack = [c0]
            while stack:
                i, j = stack.pop()
                for d in ((1, 0), (-1, 0), (0, 1), (0, -1)):
                    n = (i + d[0], j + d[1])
                    if n in cellset:
                        cellset.remove(n)
                        comp.add(n)
                        stack.append(n)
            comps.append(frozenset(comp))
        return comps

    def pinch_points(self, reg):
        cs = self.cells_of(reg)
        pts = []
        for i in range(1, self.N):
            for j in range(1, self.N):
                a, b = (i, j) in cs, (i + 1, j + 1) in cs
                c, d = (i + 1, j) in cs, (i, j + 1) in cs
                if (a and b and not c and not d) or (c and d and not a and not b):
                    pts.append((i, j))
        return pts

    def kind(self, reg):
        if reg == 0:
            return "E"
        if reg == self.full:
            return "W"
        cs = self.cells_of(reg)
        comp = self._components(cs)
        if len(comp) >= 2:
            return "D"
        co = self._components(set(self.cells) - cs)
        return "S" if len(co) == 1 else "C"

    def ncomps(self, reg):
        cs = self.cells_of(reg)
        return len(self._components(cs)), len(
            self._components(set(self.cells) - cs)
        )

    def dedges(self, reg):
        """directed unit edges of the boundary, region on the left"""
        cs = self.cells_of(reg)
        out = set()
        for i, j in cs:
            # cell (i,j) = [i-1,i] x [j-1,j]
            if (i + 1, j) not in cs and i < self.N:  # right side, going up
                out.add(((i, j - 1), (i, j)))
            if (i - 1, j) not in cs and i > 1:  # left side, going down
                out.add(((i - 1, j), (i - 1, j - 1)))
            if (i, j + 1) not in cs and j < self.N:  # top side, going left
                out.add(((i, j), (i - 1, j)))
            if (i, j - 1) not in cs and j > 1:  # bottom side, going right
                out.add(((i - 1, j - 1), (i, j - 1)))
        return out

    def loops(self, reg):
        """corner cycles (region on the left), each rotated to start at its
        least point; only for pinch-free regions"""
        de = self.dedges(reg)
        nxt = {}
        for p, q in de:
            assert p not in nxt, "pinch"
            nxt[p] = q
        loops = []
        seen = set()
        for p in sorted(nxt):
            if p in seen:
                continue
            cyc = [p]
            seen.add(p)
            q = nxt[p]
            while q != p:
                cyc.append(q)
                seen.add(q)
                q = nxt[q]
            n = len(cyc)
            corners = [
                cyc[k]
                for k in range(n)
                if not _collinear(cyc[k - 1], cyc[k], cyc[(k + 1) % n])
            ]
            m = corners.index(min(corners))
            loops.append(tuple(corners[m:] + corners[:m]))
        return sorted(loops)

    def moment_scaled(self, reg, a, b):
        """(a+1)(b+1) * integral of x^a y^b with the TLC coordinates; unbounded
        regions: minus the bounded complement"""
        X, Y = self.XS, self.YS
        if self.unbounded(reg):
            return -self.moment_scaled(self.full ^ reg, a, b)
        tot = 0
        for i, j in self.cells_of(reg):
            tot += (X[i] ** (a + 1) - X[i - 1] ** (a + 1)) * (
                Y[j] ** (b + 1) - Y[j - 1] ** (b + 1)
            )
        return tot

    def general_position(self):
        """no two atoms share a boundary edge or meet at a point other than a
        transversal crossing"""
        bd = []
        for k in range(len(self.atoms)):
            de = self.dedges(self.atom_reg(k + 1))
            und = {frozenset(e) for e in de}
            bd.append(und)
        for a in range(len(bd)):
            for b in range(a + 1, len(bd)):
                if bd[a] & bd[b]:
                    return False
                for pt in product(range(self.N + 1), repeat=2):
                    pa, pb = _pass(bd[a], pt), _pass(bd[b], pt)
                    if pa != "n" and pb != "n" and {pa, pb} != {"h", "v"}:
                        return False
        return True

    # ---- MC module ------------------------------------------------------
    def mc_text(self):
        def tset(s):
            return "{" + ", ".join(sorted(s)) + "}"

        atoms = ", ".join(
            tset("<<%d,%d>>" % c for c in sorted(a)) for a in self.atoms
        )
        faces = ", ".join(tset(str(k) for k in sorted(f)) for f in self.faces)
        return (
            "---- MODULE MC_%s ----\n"
            "\\* generated by harness/vshape/universe.py -- do not edit\n"
            "EXTENDS Integers, Sequences\n"
            "U_Name == \"%s\"\n"
            "U_N == %d\n"
            "U_AtomCells == << %s >>\n"
            "U_XS == << %s >>\n"
            "U_YS == << %s >>\n"
            "U_FaceSeq == << %s >>\n"
            "====\n"
        ) % (
            self.name,
            self.name,
            self.N,
            atoms,
            ", ".join(map(str, self.XS)),
            ", ".join(map(str, self.YS)),
            faces,
        )


def _collinear(p, q, r):
    return (q[0] - p[0]) * (r[1] - q[1]) == (q[1] - p[1]) * (r[0] - q[0])


def _pass(und_edges, pt):
    inc = [e for e in und_edges if pt in e]
    if not inc:
        return "n"
    if len(inc) > 2:
        return "x"
    if all(q[1] == pt[1] for e in inc for q in e):
        return "h"
    if all(q[0] == pt[0] for e in inc for q in e):
        return "v"
    return "c"


def all_universes():
    return [Universe(n) for n in CATALOGUE]


if __name__ == "__main__":
    import sys

    out = sys.argv[1]
    os.makedirs(out, exist_ok=True)
    for u in all_universes():
        assert u.general_position(), u.name
        for k in range(len(u.atoms)):
            assert u.kind(u.atom_reg(k + 1)) == "S", (u.name, k)
            assert not u.pinch_points(u.atom_reg(k + 1))
        with open(os.path.join(out, "MC_%s.tla" % u.name), "w") as fh:
            fh.write(u.mc_text())
        print(u.name, "N=%d faces=%d regions=%d" % (u.N, u.nfaces, u.NR), u.XS, u.YS)
