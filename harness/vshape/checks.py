"""The registered checks, one function per property (bin/check dispatches here)."""
from __future__ import annotations

import argparse
import json
import os
import random
import sys
import time

from . import models, realise, replay, runner, spectab, tlc
from fractions import Fraction as F

from .universe import CATALOGUE, Universe

U2 = ["U2disj", "U2nest", "U2corner", "U2bite", "U2cross", "U2notch", "U2comb"]
U3 = ["U3venn", "U3hole", "U3chain", "U4nest"]
POLY = ["poly-frac", "poly-int", "poly-float"]
CURVED = ["quad-float", "mixdeg-float", "cubic-float"]
EXTRA = ["poly-mixed", "poly-frac-rot", "quad-frac"]


# representative degenerate (class I / P) rows of the three-atom universes that are recorded
# as known findings (KNOWN_FINDINGS.json, F-C01-nontransversal-U3); they are always run
REPR_IP = [
    ("U3chain", "and", 3, 10), ("U3chain", "and", 10, 22), ("U3chain", "or", 7, 36), ("U3chain", "or", 10, 13),
    ("U3chain", "sub", 11, 21), ("U3chain", "sub", 15, 44), ("U3chain", "xor", 7, 54), ("U3chain", "xor", 10, 3),
    ("U3hole", "and", 9, 7), ("U3hole", "and", 10, 19), ("U3hole", "or", 9, 33), ("U3hole", "or", 26, 50),
    ("U3hole", "sub", 3, 21), ("U3hole", "sub", 12, 20), ("U3hole", "xor", 12, 20), ("U3hole", "xor", 13, 20),
]


def repr_jobs(reals, opts=None):
    jobs = []
    for un in sorted({r[0] for r in REPR_IP}):
        want = {(op, a, b) for u_, op, a, b in REPR_IP if u_ == un}
        u = Universe(un)
        for row in models.pair_rows(un):
            if (row["op"], row["a"], row["b"]) in want:
                for rn in reals:
                    jobs.append((un, rn, replay.pair_case(u, row), opts or {}))
    return jobs


def pair_jobs(unames, reals, rng, *, per_universe=None, classes=("T", "I", "P"), ops=None, opts=None, rowfilter=None):
    jobs = []
    for un in unames:
        u = Universe(un)
        rows = [r for r in models.pair_rows(un) if r["cls"] in classes and (ops is None or r["op"] in ops)]
        if rowfilter:
            rows = [r for r in rows if rowfilter(u, r)]
        if per_universe is not None:
            rows = runner.sample(rows, per_universe, rng)
        for k, row in enumerate(rows):
            for rn in reals if not callable(reals) else reals(k):
                jobs.append((un, rn, replay.pair_case(u, row), opts or {}))
    return jobs


def sim_jobs(unames, reals, *, num, depth, seed, opts=None, **kw):
    jobs = []
    results = []
    for un in unames:
        res, behs = models.shapesys_simulate(un, num=num, depth=depth, seed=seed, **kw)
        results.append((un, res))
        for b in behs:
            case = {"label": "sim", "universe": un, "steps": b}
            for rn in reals:
                jobs.append((un, rn, case, opts or {}))
    return results, jobs


def history_sims(rep, rng, quick, *, props, reals=("poly-frac", "poly-float"), c10=False, num=None, rows_per=50):
    """histories in which objects are moved far away and back between queries and operators
    (far-apart frames of ShapeSys): stale position-dependent caches show up as wrong answers"""
    sims, jobs = sim_jobs(["U2nest", "U2cross"] if quick else ["U2nest", "U2cross", "U2notch", "U3hole"], list(reals),
                          num=(num or 400) if quick else 3000, depth=10, seed=runner.seed() + 21, opts={"check_c10": c10},
                          acts=("mkreg", "transform", "query", "bin"), gens=("f1", "F1", "r1"), maxframe=4, regs=2, maxobj=5,
                          constraint="HistDomain", tag="MCSIM_hist")
    for un, r in sims:
        rep.add_tlc("ShapeSys-sim-history/" + un, r)
    # deterministic histories from the one-step rows: warm by one query, transform both operands
    # by the same generators, ask again (expected answers: the row's)
    words = [("f1",), ("far",), ("r1",), ("rot4",), ("m1",), ("twice",), ("s1",), ("twicefresh",), ("r1", "r1"), ("f1", "r1"), ("twice",), ("twicefresh",)]
    warms = ["aa", "ba", "ab", "bb"]
    hreals = list(reals) + ["sim-far3-float", "sim-far3-frac"]      # off-centre: a rotation about the origin moves the drawing away
    for un in (["U2nest", "U3dot", "U2cross", "U2notch", "U2corner"] if quick else U2 + ["U3dot", "U3hole", "U4nest"]):
        u = Universe(un)
        rows = [r for r in models.pair_rows(un) if r["op"] in ("or", "and") and r["a"] not in (0, u.full) and r["b"] not in (0, u.full) and r["cls"] == "T"]
        if un in ("U2nest", "U3dot"):
            # small universe with composite (hollow) regions: every row, the words that move things
            for k, row in enumerate(r_ for r_ in rows if r_["op"] == "or"):
                for wd, wm in ((("f1",), "ba"), (("far",), "ab"), (("r1",), "aa")):
                    jobs.append((un, hreals[(k + len(wd[0])) % len(hreals)], replay.history_case(u, row, wd, wm), {"check_c10": False}))
            continue
        rows = runner.sample(rows, rows_per if quick else 600, rng)
        for k, row in enumerate(rows):
            jobs.append((un, hreals[k % len(hreals)], replay.history_case(u, row, words[k % len(words)], warms[(k // len(words)) % 4]), {"check_c10": c10 and k % 6 == 0}))
    res = runner.pool_map(replay.run_case, jobs)
    rep.add_results("hist", res, props=props)


def suite_traces(rep, kinds=None):
    """code -> spec on executions not designed for this framework: the repository's own tests
    run unmodified under the recorder; TLC validates the traces against TraceGeneric"""
    from . import tracegen
    data, tail = tracegen.record_suite()
    res = tracegen.validate(data)
    rep.add_tlc("TraceGeneric (repository test-suite: %d traces, %d events; pytest: %s)" % (len(data["traces"]), sum(len(t["events"]) for t in data["traces"]), tail), res if res.clean else res)
    if not res.clean:
        return
    res.ok = True
    rep.cov["traces_validated_against_impl"] += len(data["traces"])
    rep.cov["evaluations"] += len(data["traces"])
    for t in data["traces"]:
        rep.distinct.add(("suite", t["test"]))
    if data["traces"]:
        t = data["traces"][0]
        rep.cov["samples"].append({"recorded_test": t["test"], "events": [{"ev": e["ev"], "name": e.get("name"), "out": e.get("out"), "operands": [d["id"] for d in e.get("pre", [])],
                                                                          "result": e.get("res", {}).get("id"), "n_witnesses_in_result": len(e.get("res", {}).get("sig", []))} for e in t["events"][:6]]})
    for (ti, li) in res.rejected:
        t = data["traces"][ti - 1]
        e = t["events"][li - 1] if li - 1 < len(t["events"]) else {}
        if kinds is None or e.get("ev") in kinds:
            rep.finding_or_violation("suite/%s/%s:%s" % (t["test"], e.get("ev"), e.get("name")),
                                     {"what": "an execution of the repository's test-suite is not a behaviour of TraceGeneric", "test": t["test"], "event_index": li,
                                      "event": {k: v for k, v in e.items() if k not in ("pre", "post", "res")}, "operands": e.get("pre"), "result": e.get("res")})
    neg = tracegen.corrupt(data)
    if neg["traces"]:
        r2 = tracegen.validate(neg, tag="MCTGN")
        rep.cov["negative_controls_suite"] = {"tried": len(neg["traces"]), "rejected": len({ti for ti, _ in r2.rejected})}
        if len({ti for ti, _ in r2.rejected}) != len(neg["traces"]):
            rep.machinery.append("negative control accepted by TraceGeneric: %r vs %r" % ([t["corrupted"] for t in neg["traces"]], r2.rejected))


def nontrivial_pair(r):
    row = r.get("row")
    if not row:
        return True
    return row["a"] not in (0,) and row["b"] not in (0,) and row["res"] != row["a"] and row["res"] != row["b"]



def trace_engine(rep, unames, reals, *, ntr, nsteps, acts_for_prop, seed_offset=0, gens=("m1", "M1", "s1", "S1"), maxframe=2):
    """code -> spec: random programs (drawn here from VERIF_SEED, not by TLC) executed on
    the real library, observed, and validated by TLC against TraceShapeSys; plus negative
    controls (corrupted copies of accepted traces must be rejected)"""
    from . import trace
    jobs = []
    for i, un in enumerate(unames):
        for j, rn in enumerate(reals):
            for c in range(4):
                jobs.append((un, rn, runner.seed() * 1000 + seed_offset + 17 * i + 5 * j + c, max(1, ntr // 4), nsteps, {"gens": gens, "maxframe": maxframe}))
    recs = runner.pool_map(trace.record_job, jobs, chunksize=1, smoke_cap=False)
    by_u = {}
    for job, r in zip(jobs, recs):
        if isinstance(r, dict):
            rep.machinery.append(r["machinery"])
            continue
        by_u.setdefault(job[0], []).extend(r)
    negs = {"tried": 0, "rejected": 0}
    for un, trs in by_u.items():
        res = trace.validate(un, trs, gens=gens, maxframe=maxframe)
        rep.add_tlc("TraceShapeSys/" + un, res if res.ok or res.rejected else res)
        if not res.ok and not res.rejected:
            continue
        rep.cov["traces_validated_against_impl"] += len(trs)
        rep.cov["evaluations"] += len(trs)
        for t in trs:
            rep.distinct.add((un, t["real"], json.dumps([[e["act"], e.get("op"), e.get("a"), e.get("b"), e.get("d")] for e in t["events"]])))
        if len(rep.cov["samples"]) < 4 and trs:
            t = trs[0]
            rep.cov["samples"].append({"recorded_trace": {"universe": un, "realisation": t["real"],
                                       "events": [{k: v for k, v in e.items() if k != "regs"} | {"observed_regions": [r["reg"] for r in e["regs"]]} for e in t["events"]]}})
        for (ti, li) in res.rejected:
            t = trs[ti - 1]
            ev = t["events"][li - 1] if li - 1 < len(t["events"]) else {"act": "?"}
            if acts_for_prop is None or ev["act"] in acts_for_prop:
                key = "trace/%s/%s/%s" % (un, t["real"], ev["act"])
                rep.finding_or_violation(key, {"what": "recorded execution rejected by TraceShapeSys", "event_index": li, "event": ev,
                                               "events": [{k: v for k, v in e.items() if k != "regs"} for e in t["events"][:li]],
                                               "observed": ev.get("regs")})
        # negative controls
        bad = trace.corrupt(trs, random.Random(runner.seed() + 3))
        if bad:
            r2 = trace.validate(un, bad, gens=gens, maxframe=maxframe, tag="MCTRN_" + un)
            negs["tried"] += len(bad)
            negs["rejected"] += len({ti for ti, _ in r2.rejected})
            if len({ti for ti, _ in r2.rejected}) != len(bad):
                rep.machinery.append("negative control accepted by TLC on %s: %r vs %r" % (un, [b["corrupted"] for b in bad], r2.rejected))
    rep.cov["negative_controls"] = negs


# ---------------------------------------------------------------------------
def check_C01(tier, rng, rep):
    """boolean operators are set-theoretic, point by point"""
    quick = tier == "quick"
    # (a) the model: region algebra theorems + the heap model's ResultIsSetAlgebra
    for un in (["U2cross", "U3hole"] if quick else U2 + U3):
        rep.add_tlc("PlaneThm/" + un, models.plane_thm(un, ["ThmSubset", "ThmSingletonLaws", "ThmXorTouch", "ThmParity"]))
    un = "U2cross" if quick else "U2cross"
    rep.add_tlc("ShapeSys/%s/r2" % un, models.shapesys_check(un, regs=2, maxobj=4, props=["ResultIsSetAlgebra"], invs=["TypeOK"],
                                                                acts=("make", "bin", "inv")))
    # the code-shaped model of FollowPath (split, classify by mid-point, pursue, assemble) yields
    # exactly the boundary loops of the set-theoretic result for every transversal pair ...
    for un in (["U2cross", "U2comb", "U3hole", "U3venn"] if quick else U2 + U3):
        rep.add_tlc("FollowPath/" + un, models.followpath(un))
    # ... and is refuted on touching operands (model-level explanation of F-C01-nontransversal-U3)
    rf = models.followpath("U3hole", invariants=("RefutedOnTouching",), tag="MCFR_U3hole")
    rep.cov["tlc_runs"].append({"model": "FollowPath/U3hole touching operands (expected counterexample)", "violated": rf.violated, "distinct_states": rf.distinct})
    if rf.violated != "RefutedOnTouching":
        rep.machinery.append("FollowPath on touching operands should be refuted on U3hole but TLC says %r" % rf.violated)
    # (b) one-step behaviours: every operator on every ordered pair of pinch-free regions
    jobs = []
    o = {"check_c10": False}
    if quick:
        jobs += pair_jobs(U2, lambda k: [POLY[k % 3]], rng, per_universe=50, opts=o)
        jobs += pair_jobs(U2, ["sim-mmu-float"], rng, per_universe=12, classes=("T",), opts=o)
        jobs += pair_jobs(U2, lambda k: [CURVED[k % 3]], rng, per_universe=20, classes=("T",), opts=o)
        jobs += pair_jobs(U3, lambda k: [(POLY + CURVED)[k % 6]], rng, per_universe=50, classes=("T",), opts=o)
        jobs += pair_jobs(["U3far", "U3dot"], lambda k: [POLY[k % 3]], rng, per_universe=40, classes=("T",), opts=o, rowfilter=lambda u, r: r["reaches"])
    else:
        jobs += pair_jobs(U2, POLY + CURVED[:2], rng, opts=o)
        jobs += pair_jobs(U2, ["cubic-float", "poly-mixed", "poly-frac-rot", "sim-mmu-float"], rng, per_universe=150, classes=("T",), opts=o)
        jobs += pair_jobs(U3, lambda k: [(POLY + CURVED + EXTRA[:2])[k % 8]], rng, per_universe=1200, classes=("T",), opts=o)
    jobs += repr_jobs(["poly-frac", "poly-float"], o)
    res = runner.pool_map(replay.run_case, jobs)
    rep.add_results("pairs", res, nontrivial=nontrivial_pair)
    # (c) nested expressions: simulated behaviours of the heap model
    sims, jobs = sim_jobs([rng.choice(U2[2:])] if quick else U2[2:] + ["U3hole"], ["poly-frac", "poly-float"] if quick else POLY + CURVED,
                          num=24 if quick else 200, depth=9, seed=runner.seed() + 11, opts=o,
                          acts=("make", "bin", "inv"), regs=3, maxobj=6, constraint="SimDomain")
    for un, r in sims:
        rep.add_tlc("ShapeSys-sim/" + un, r)
    res = runner.pool_map(replay.run_case, jobs)
    rep.add_results("sim", res)
    history_sims(rep, rng, quick, props={"C01"}, num=120)
    # (d) code -> spec: recorded random programs validated by TLC
    trace_engine(rep, [rng.choice(U2[2:]), rng.choice(["U3hole", "U3chain"])] if quick else U2[2:] + U3, ["poly-frac", "poly-float"] if quick else POLY + CURVED[:2],
                 ntr=16 if quick else 60, nsteps=10, acts_for_prop={"Bin", "Inv"}, gens=(), maxframe=0)
    if not quick:
        suite_traces(rep, kinds={"bin", "inv"})      # quick tier: the suite traces are validated by C08
    rep.assumptions += [
        "witness points are classified in the rational pre-image of the realisation (exact); projection uses one witness per inner cell plus far points",
        "operands of the one-step corpus are built with the direct constructors (C19's subject)",
    ]
    return rep.finish(tier, rule="one-step behaviours = (operator, ordered pair of pinch-free regions) rows computed by TLC from ShapeSys!BinEffect, "
                      "each replayed under a realisation; distinct = (universe, row, realisation); non-trivial = result differs from both operands and no Empty operand; "
                      "plus TLC -simulate behaviours of make/bin/inv actions", exhaustive=not quick)



def region_jobs(unames, reals, rng, *, per_universe=None, opts=None, pred=None):
    jobs = []
    for un in unames:
        st = spectab.load(un)
        regs = [r for r in range(st.u.NR) if not st.pinch(r) and (pred is None or pred(st, r))]
        if per_universe is not None:
            regs = runner.sample(regs, per_universe, rng)
        for k, reg in enumerate(regs):
            for rn in reals if not callable(reals) else reals(k):
                jobs.append((un, rn, reg, dict(opts or {})))
    return jobs


def query_rows(unames, reals, rng, *, per_universe=None, classes=("T", "I", "P"), opts=None):
    jobs = []
    for un in unames:
        rows = [r for r in models.pair_rows(un) if r["op"] == "or" and r["cls"] in classes]
        if per_universe is not None:
            rows = runner.sample(rows, per_universe, rng)
        for k, row in enumerate(rows):
            for rn in reals if not callable(reals) else reals(k):
                jobs.append((un, rn, row, dict(opts or {})))
    return jobs


def check_C02(tier, rng, rep):
    """point membership is geometric truth with the boundary rule"""
    from . import queries
    quick = tier == "quick"
    for un in (["U2cross", "U3hole"] if quick else U2 + U3):
        rep.add_tlc("PlaneThm/" + un, models.plane_thm(un, ["ThmKindShape", "ThmLoops", "ThmLoopCorners", "ThmWindingTable"]))
    proper = lambda st, r: r not in (0,)
    if quick:
        jobs = region_jobs(U2, lambda k: [(POLY + CURVED)[k % 6]], rng, per_universe=8, pred=proper)
        jobs += region_jobs(U3, lambda k: [(POLY + CURVED)[k % 6]], rng, per_universe=6, pred=proper)
        jobs += region_jobs(["U2cross", "U3hole"], ["poly-float"], rng, per_universe=3, pred=lambda st, r: st.kind(r) in "SCD", opts={"frame": ("s2", "r2", "m1")})
    else:
        jobs = region_jobs(U2, POLY + CURVED + EXTRA, rng, pred=proper)
        jobs += region_jobs(U3, lambda k: [(POLY + CURVED + EXTRA)[k % 9], (POLY + CURVED + EXTRA)[(k + 4) % 9]], rng, pred=proper)
        jobs += region_jobs(U2, ["poly-float", "quad-float"], rng, pred=lambda st, r: st.kind(r) in "SCD", opts={"frame": ("s2", "r2", "m1")})
    jobs += region_jobs(["U2cross", "U2notch", "U3hole"], lambda k: [["poly-frac", "poly-float", "quad-float"][k % 3]], rng, per_universe=3 if quick else 12,
                        pred=lambda st, r: st.kind(r) == "S", opts={"mirror": True})   # simple shapes: mirror image of the complement
    res = runner.pool_map(queries.points_case, jobs)
    rep.add_results("points", res)
    # hand-made curved shapes with closed-form membership: chord points, control-box borders
    gj = [(nm, "float", {}) for nm in ("lens", "stadium")]   # rational query points on curved shapes take minutes (exact Newton projection)
    rep.add_results("gallery", runner.pool_map(queries.gallery_points_case, gj, chunksize=1))
    rep.cov["points_queried"] = sum(r.get("stats", {}).get("points", 0) for r in res)
    rep.assumptions.append("witnesses: cell centres, points at 2% and 0.1% of a cell from its sides and corners (inside the sagitta of curved edges), points on unit edges, grid vertices, far points (up to 10^4 windows away); classified exactly in the pre-image")
    return rep.finish(tier, rule="(universe, pinch-free region, realisation) triples; every witness point of the universe is queried with boundary=True and False and compared with PointClass from the specification tables; all are non-trivial (proper regions)", exhaustive=not quick)


def check_C03(tier, rng, rep):
    """`B in A` is subset, for shapes and curves"""
    from . import queries
    quick = tier == "quick"
    for un in (["U2cross", "U3hole"] if quick else U2 + U3):
        rep.add_tlc("PlaneThm/" + un, models.plane_thm(un, ["ThmSubset", "ThmBdryIn", "ThmContainsSimple"]))
    # the pinned short-cut ("two unbounded simple shapes: return True") must be refuted by TLC
    rp = models.plane_thm("U2notch", ["RefutedContainsSimplePinned"])
    rep.cov["tlc_runs"].append({"model": "PlaneThm/U2notch pinned __contains_simple (expected counterexample)", "violated": rp.violated, "distinct_states": rp.distinct})
    if rp.violated != "RefutedContainsSimplePinned":
        rep.machinery.append("the pinned containment short-cut should be refuted on U2notch but TLC says %r" % rp.violated)
    un = "U2bite" if quick else "U2notch"
    rep.add_tlc("ShapeSys/%s/r2" % un, models.shapesys_check(un, regs=2, maxobj=4, props=["SubsetLaw"], invs=["TypeOK"], acts=("mkreg", "query")))
    if quick:
        jobs = query_rows(U2, lambda k: [(POLY + CURVED[:2])[k % 5]], rng, per_universe=60)
        jobs += query_rows(U3, lambda k: [(POLY + CURVED[:2])[k % 5]], rng, per_universe=60, classes=("T",))
    else:
        jobs = query_rows(U2, POLY + CURVED + EXTRA[:2], rng)
        jobs += query_rows(U3, lambda k: [(POLY + CURVED + EXTRA[:2])[k % 8]], rng, per_universe=1500, classes=("T", "P"))
    res = runner.pool_map(queries.pairq_case, jobs)
    rep.add_results("pairq", res, nontrivial=lambda r: r["row"]["a"] != r["row"]["b"] and r["row"]["a"] and r["row"]["b"])
    history_sims(rep, rng, quick, props={"C03"}, num=120)
    return rep.finish(tier, rule="ordered pairs of pinch-free regions (rows of ShapeSysExport) x realisation; `B in A`, `A in B`, curves of B in A (closed/open), A in A, and the consequences A|B == A, A&B == B; non-trivial = distinct non-empty regions", exhaustive=not quick)


def check_C07(tier, rng, rep):
    """== is region equality and an equivalence"""
    from . import queries
    quick = tier == "quick"
    un = "U2corner" if quick else "U2corner"
    rep.add_tlc("ShapeSys/%s/r2" % un, models.shapesys_check(un, regs=2, maxobj=4, props=[], invs=["TypeOK", "Canonical"], acts=("mkreg", "query", "copy")))
    if quick:
        jobs = query_rows(U2, lambda k: [(POLY + CURVED[:2])[k % 5]], rng, per_universe=50)
        jobs += query_rows(U3, lambda k: [(POLY + CURVED[:2])[k % 5]], rng, per_universe=50, classes=("T", "I"))
    else:
        jobs = query_rows(U2, POLY + CURVED + EXTRA[:2], rng)
        jobs += query_rows(U3, lambda k: [(POLY + CURVED + EXTRA[:2])[k % 8]], rng, per_universe=1500)
    # make sure equal pairs (the interesting direction) are present
    for un in (U2 + U3):
        rows = [r for r in models.pair_rows(un) if r["op"] == "or" and r["a"] == r["b"] and r["a"] not in (0,)]
        for k, row in enumerate(runner.sample(rows, 5 if quick else len(rows), rng)):
            jobs.append((un, (POLY + CURVED)[k % 6], row, {}))
    res = runner.pool_map(queries.pairq_case, jobs)
    rep.add_results("pairq", res, nontrivial=lambda r: True)
    return rep.finish(tier, rule="ordered pairs of pinch-free regions x realisation: A == B and B == A against region equality, must be bool; for equal regions the variants {rotated start vertex, deep copy, every other segment split at 1/2, float coordinates} must be == in every direction (symmetry, transitivity)", exhaustive=not quick)


def check_C04(tier, rng, rep):
    """area and moments are the true integrals"""
    from . import queries
    quick = tier == "quick"
    for un in (["U2cross", "U3hole"] if quick else U2 + U3):
        rep.add_tlc("PlaneThm/" + un, models.plane_thm(un, ["ThmGreen", "ThmMomCompl"]))
    proper = lambda st, r: r not in (0, st.u.full)
    if quick:
        jobs = region_jobs(U2, lambda k: [(POLY + CURVED)[k % 6], (POLY + CURVED)[(k + 3) % 6]], rng, per_universe=10, pred=proper)
        jobs += region_jobs(U3, lambda k: [(POLY + CURVED)[k % 6]], rng, per_universe=16, pred=proper)
        for fr in (("s2", "m2"), ("r1", "s1"), ("m1",)):
            jobs += region_jobs(U2, lambda k: [(POLY + CURVED[:1])[k % 4]], rng, per_universe=3, pred=proper, opts={"frame": fr, "via_api": True})
    else:
        jobs = region_jobs(U2 + U3, POLY + CURVED + EXTRA, rng, pred=proper)
        for fr in (("s2", "m2"), ("r1", "s1"), ("m1",), ("r2", "M2", "S1")):
            jobs += region_jobs(U2 + U3, lambda k: [(POLY + CURVED)[k % 6]], rng, per_universe=12, pred=proper, opts={"frame": fr, "via_api": True})
        jobs += region_jobs(U2, ["poly-frac", "quad-float"], rng, pred=proper, opts={"frame": ("s2", "m2")})
    res = runner.pool_map(queries.moments_case, jobs)
    rep.add_results("moments", res)
    rep.assumptions.append("exact equality demanded for int/Fraction polygons; 1e-9 of the absolute moment where the library's Newton-Cotes rule is exact for the integrand (degree 1: all; degree 2: a+b<=2; degree 3: area); 2e-3 otherwise ('quadrature accuracy')")
    return rep.finish(tier, rule="(universe, pinch-free proper region, realisation): IntegrateShape.polynomial for all a+b<=4, IntegrateShape.area, float(), bool(), sum of IntegrateJordan.area against the exact cell-weight sums of the realisation", exhaustive=not quick)


def check_C05(tier, rng, rep):
    """inclusion-exclusion on the library's own numbers"""
    from . import queries
    quick = tier == "quick"
    for un in (["U2cross", "U3hole"] if quick else U2 + U3):
        rep.add_tlc("PlaneThm/" + un, models.plane_thm(un, ["ThmInclExcl", "ThmMomCompl"]))
    if quick:
        jobs = query_rows(U2, lambda k: [(POLY + CURVED[:2])[k % 5]], rng, per_universe=40, classes=("T",))
        jobs += query_rows(U3, lambda k: [(POLY + CURVED[:2])[k % 5]], rng, per_universe=40, classes=("T",))
    else:
        jobs = query_rows(U2, POLY + CURVED + EXTRA[:2], rng, classes=("T",))
        jobs += query_rows(U3, lambda k: [(POLY + CURVED + EXTRA[:2])[k % 8]], rng, per_universe=1200, classes=("T",))
    jobs += [(u_, r_, row_, {"via_invert": True}) for (u_, r_, row_, _o) in jobs[::4]]
    res = runner.pool_map(queries.incl_excl_case, jobs)
    rep.add_results("incl", res, nontrivial=nontrivial_pair)
    rep.assumptions.append("operand pairs are restricted to transversal (T-class) pairs; degenerate pairs are covered, with their known findings, by C01")
    return rep.finish(tier, rule="ordered T-class pairs of pinch-free regions x realisation: the four identities on the library's own moments of order <= 2 (exact for rational polygons, 1e-5 of the absolute moment otherwise) and each result moment against the specification's Moment(reg')", exhaustive=not quick)


def singleton_rows(un):
    """the documented singleton laws as rows: S|~S, S&~S, S-S, S^S, S^~S"""
    u = Universe(un)
    out = []
    for r in models.pair_rows(un):
        a, b, op = r["a"], r["b"], r["op"]
        if a in (0, u.full):
            continue
        if (op in ("or", "and", "xor") and b == u.full ^ a) or (op in ("sub", "xor") and b == a):
            out.append(r)
    return out


def check_C06(tier, rng, rep):
    """results are canonical, well-formed; singletons"""
    quick = tier == "quick"
    for un in (["U2cross", "U3hole"] if quick else U2 + U3):
        rep.add_tlc("PlaneThm/" + un, models.plane_thm(un, ["ThmKindShape", "ThmComplRow", "ThmSingletonLaws", "ThmLoops", "ThmLoopCorners", "ThmGrouping"]))
    # the code-shaped grouping of curves into components and holes (DivideConnecteds) is right on
    # every region; comparing only with the biggest curve of a group is refuted at nesting depth 4
    rep.add_tlc("PlaneThm/U4nest", models.plane_thm("U4nest", ["ThmGrouping", "ThmKindShape", "ThmLoops"]))
    rw = models.plane_thm("U4nest", ["RefutedGroupingWeak"])
    rep.cov["tlc_runs"].append({"model": "PlaneThm/U4nest weak grouping (expected counterexample)", "violated": rw.violated, "distinct_states": rw.distinct})
    if rw.violated != "RefutedGroupingWeak":
        rep.machinery.append("the weak grouping rule should be refuted on U4nest but TLC says %r" % rw.violated)
    un = "U2nest" if quick else "U2cross"
    rep.add_tlc("ShapeSys/%s/r2" % un, models.shapesys_check(un, regs=2, maxobj=4, props=["FreshResults"], invs=["TypeOK", "Canonical"], acts=("make", "bin", "inv")))
    o = {"check_c10": False}
    jobs = []
    if quick:
        rl = POLY + CURVED[:2] + ["sim-mmu-float", "sim-mmu-frac"]
        jobs += pair_jobs(U2, lambda k: [rl[k % 7]], rng, per_universe=70, classes=("T",), opts=o)
        jobs += pair_jobs(U3, lambda k: [rl[k % 7]], rng, per_universe=70, classes=("T",), opts=o)
        jobs += pair_jobs(["U3far", "U3dot"], lambda k: [POLY[k % 3]], rng, per_universe=60, classes=("T",), opts=o, rowfilter=lambda u, r: r["reaches"])
    else:
        jobs += pair_jobs(U2, POLY + CURVED[:2] + ["sim-mmu-float", "sim-mmu-frac"], rng, classes=("T",), opts=o)
        jobs += pair_jobs(U2, ["cubic-float", "poly-mixed", "poly-frac-rot"], rng, per_universe=120, classes=("T",), opts=o)
        jobs += pair_jobs(["U3far", "U3dot"], POLY + CURVED[:1], rng, classes=("T",), opts=o)
        jobs += pair_jobs(U3, lambda k: [(POLY + CURVED + EXTRA[:2] + ["sim-mmu-float", "sim-mmu-frac"])[k % 10]], rng, per_universe=1200, classes=("T",), opts=o)
    # singleton laws (identical boundaries): exact arithmetic on every universe; float polygons on
    # the two-atom universes, where every row has been surveyed (the failing ones are the recorded
    # finding F-C06-float-collinear-U2); under float coordinates on larger universes and for curved
    # boundaries the laws fail sporadically for the same reason and are outside the explored domain
    for un in U2 + U3:
        rows = singleton_rows(un)
        # (survey of 6 432 cases: exact, quadratic and cubic realisations satisfy the laws on every
        # universe; float polygons fail on 6 rows of the two-atom universes - the recorded finding -
        # and on some rows of the larger ones; mixed-degree float curves fail on some rows of U3chain)
        rl = (POLY if un in U2 else ["poly-frac", "poly-int"]) + ["quad-float"]
        for k, row in enumerate(runner.sample(rows, 12 if quick else len(rows), rng)):
            for rn in ([rl[k % len(rl)]] if quick else rl):
                jobs.append((un, rn, replay.pair_case(Universe(un), row), o))
    res = runner.pool_map(replay.run_case, jobs)
    # a result that does not even denote the expected region is not the canonical, well-formed
    # shape of that region either (wrong grouping of curves into components and holes)
    rep.add_results("pairs", res, props={"C06", "C01"}, nontrivial=nontrivial_pair)
    trace_engine(rep, [rng.choice(U2[2:]), rng.choice(U3)] if quick else U2[2:] + U3, ["poly-int", "quad-float"] if quick else POLY + CURVED[:2],
                 ntr=12 if quick else 60, nsteps=10, acts_for_prop={"Bin", "Inv", "MakeAtom", "MakeRegion"}, gens=(), maxframe=0, seed_offset=600)
    return rep.finish(tier, rule="one-step operator behaviours on T-class pairs plus the singleton-law rows (S|~S, S&~S, S-S, S^S, S^~S for every pinch-free S): kind, number of curves, corner cycles, vertex cycles (segmentation), junction identity, zero-length pieces, singleton identity", exhaustive=not quick)


GEN_SMALL = ("m1", "M1", "s1", "S1", "r1", "R1")
GEN_ALL = ("m1", "M1", "m2", "M2", "s1", "S1", "s2", "S2", "r1", "R1", "r2", "R2")


def check_C08(tier, rng, rep):
    """operands unchanged, results share nothing"""
    quick = tier == "quick"
    un = "U2cross" if quick else "U2cross"
    rep.add_tlc("ShapeSys/%s/r2" % un, models.shapesys_check(un, regs=2, maxobj=4, props=["OperandsUnchanged", "FreshResults"], invs=["TypeOK", "Canonical"]))
    acts = ("make", "mkreg", "bin", "inv", "copy", "invert", "transform", "alias", "query", "drop")
    sims, jobs = sim_jobs([rng.choice(U2[2:]), rng.choice(U3)] if quick else U2 + U3, ["poly-frac", "poly-float", "quad-float"] if quick else POLY + CURVED,
                          num=36 if quick else 150, depth=11, seed=runner.seed() + 8, opts={"check_c10": False, "deep_all": True},
                          acts=acts, gens=GEN_SMALL, maxframe=2, regs=3, maxobj=6, constraint="SimDomain")
    for un, r in sims:
        rep.add_tlc("ShapeSys-sim/" + un, r)
    res = runner.pool_map(replay.run_case, jobs)
    rep.add_results("sim", res)
    # operands of the one-step corpus (region, frame unchanged; predicted segmentation)
    jobs = pair_jobs(U2 if quick else U2 + U3, lambda k: [(POLY + CURVED[:2])[k % 5]], rng, per_universe=40 if quick else None, classes=("T",), opts={"check_c10": False})
    res = runner.pool_map(replay.run_case, jobs)
    rep.add_results("pairs", res, nontrivial=nontrivial_pair)
    trace_engine(rep, [rng.choice(U2[2:]), rng.choice(U3)] if quick else U2[2:] + U3, ["poly-frac", "poly-float"] if quick else POLY + CURVED[:2],
                 ntr=16 if quick else 60, nsteps=12, acts_for_prop=None, seed_offset=800)
    suite_traces(rep)
    return rep.finish(tier, rule="TLC -simulate behaviours (make/mkreg/bin/inv/copy/invert/transform/alias/query/drop, depth 11) replayed with bit-exact snapshots of every bystander object, identity structure (aliasing, singletons) and id-disjointness of distinct objects after every step; plus operands of the one-step operator corpus", exhaustive=False)


def check_C09(tier, rng, rep):
    """move / rotate / scale are the affine maps"""
    quick = tier == "quick"
    un = "U2corner" if quick else "U2corner"
    rep.add_tlc("ShapeSys/%s/r2/frames" % un, models.shapesys_check(un, regs=2, maxobj=4, gens=("m1", "M1", "s1", "r1"), maxframe=2,
                                                                     props=["OperandsUnchanged", "FreshResults"], invs=["TypeOK", "Canonical"],
                                                                     acts=("make", "transform", "copy", "inv", "alias", "badtransform"), ops=("or",)))
    acts = ("make", "mkreg", "transform", "badtransform", "copy", "inv", "query", "alias")
    sims, jobs = sim_jobs([rng.choice(U2), rng.choice(U3)] if quick else U2 + U3, ["poly-frac", "poly-float", "quad-float", "poly-int"] if quick else POLY + CURVED + EXTRA[:2],
                          num=30 if quick else 120, depth=10, seed=runner.seed() + 9, opts={"check_c10": False, "deep_all": True},
                          acts=acts, gens=GEN_ALL, maxframe=3, regs=2, maxobj=5, constraint="SimDomain")
    for un, r in sims:
        rep.add_tlc("ShapeSys-sim/" + un, r)
    res = runner.pool_map(replay.run_case, jobs)
    rep.add_results("sim", res)
    trace_engine(rep, [rng.choice(U2), rng.choice(U3)] if quick else U2 + U3, ["poly-frac", "poly-float"] if quick else POLY + CURVED[:2],
                 ntr=12 if quick else 60, nsteps=10, acts_for_prop={"Transform", "InvertInPlace"}, gens=GEN_ALL, maxframe=3, seed_offset=900)
    # hand-made curved shapes, control-point level (incl. a control point coinciding with a vertex)
    from . import queries
    gj = []
    words = [("m1",), ("s2",), ("r1",), ("m2", "S2"), ("s1", "m1", "S1"), ("r2", "m1"), ("m1", "M1"), ("s2", "S2"), ("r1", "R1"), ("f1", "r1", "F1")]
    for nm in queries.GALLERY:
        for nt in ("int", "frac", "float"):
            for wd in (runner.sample(words, 5, rng) if quick else words):
                gj.append((nm, nt, wd, {}))
    rep.add_results("gallery", runner.pool_map(queries.gallery_case, gj))
    rep.assumptions.append("generators: move(3,-2), move(1/2,7), scale(2,2), scale(3,1/2), rotate(90 deg), rotate(atan2(3,4)) and inverses; exact comparison (and Fraction types) for move/scale on rational polygons, 1e-9 after rotations")
    return rep.finish(tier, rule="TLC -simulate behaviours with Transform/BadTransform actions (frame words of length <= 3 over 12 generators) on objects of every kind; after each step witnesses are mapped through the exact affine map of the frame word, moments by exact substitution; a word reducing to the empty word must give a shape == the original", exhaustive=False)



def _ser_case(case):
    return {"label": case.get("label"), "universe": case.get("universe"),
            "steps": [[n, world_js(a), {"heap": [dict(h, frame=list(h["frame"]), splits=[list(p) for p in sorted(h["splits"])]) for h in st["heap"]],
                                          "regs": list(st["regs"]), "obs": st["obs"]}] for n, a, st in case["steps"]]}


def world_js(v):
    from .world import _js
    return _js(v)


def rerun_observations(jobs, hashseed, warm):
    """run replay jobs in a fresh interpreter with another PYTHONHASHSEED -> list of obs logs"""
    import subprocess
    import tempfile
    d = os.path.join(tlc.BUILD, "obsrun")
    os.makedirs(d, exist_ok=True)
    jp = os.path.join(d, "jobs_%s_%s.json" % (hashseed, warm))
    op = os.path.join(d, "out_%s_%s.json" % (hashseed, warm))
    json.dump([(u, r, _ser_case(c), o) for u, r, c, o in jobs], open(jp, "w"))
    env = dict(os.environ, PYTHONHASHSEED=str(hashseed))
    p = subprocess.run([sys.executable, "-m", "vshape.obsrun", jp, op, "warm" if warm else "cold"], env=env, cwd=os.path.join(tlc.VERIF, "harness"),
                       stdout=subprocess.PIPE, stderr=subprocess.STDOUT, text=True, timeout=3000)
    if p.returncode != 0:
        raise tlc.MachineryError("obsrun failed: " + p.stdout[-2000:])
    return json.load(open(op))


def check_C10(tier, rng, rep):
    """answers depend only on the current geometry, not on earlier calls"""
    quick = tier == "quick"
    un = "U2cross" if quick else "U2cross"
    rep.add_tlc("ShapeSys/%s/r2" % un, models.shapesys_check(un, regs=2, maxobj=4, gens=("s1", "S1"), maxframe=1,
                                                              props=["OperandsUnchanged"], invs=["TypeOK", "Canonical"],
                                                              acts=("make", "bin", "query", "transform")))
    acts = ("make", "mkreg", "bin", "inv", "copy", "invert", "transform", "query", "alias")
    o = {"check_c10": True, "record_obs": True}
    sims, jobs = sim_jobs([rng.choice(U2[2:]), rng.choice(U3)] if quick else U2 + U3, ["poly-frac", "quad-float"] if quick else POLY + CURVED,
                          num=16 if quick else 120, depth=12, seed=runner.seed() + 10, opts=o,
                          acts=acts, gens=GEN_SMALL, maxframe=2, regs=3, maxobj=6, constraint="SimDomain")
    for un, r in sims:
        rep.add_tlc("ShapeSys-sim/" + un, r)
    jobs = runner.smoke(jobs)
    res = runner.pool_map(replay.run_case, jobs)
    # within a history every deviation from the model is a dependence on earlier calls: an object
    # changed by a call on another one (C08), a stale measure after a transformation (C04/C09)
    rep.add_results("sim", res, props={"C10", "C08", "C04", "C09", "C01", "C03", "C06"})
    history_sims(rep, rng, quick, props=ALLP | {"C10"}, c10=True, num=60, rows_per=36)
    # the same behaviours in fresh interpreters: other hash seeds, cold and pre-warmed
    # module-level memo tables; observation logs must be identical
    sub = runner.sample(list(range(len(jobs))), 10 if quick else 120, rng)
    chunks = [(hs, warm) for hs, warm in ((1, False), (2, True))]
    import concurrent.futures as cf
    with cf.ThreadPoolExecutor(len(chunks)) as ex:
        futs = {ex.submit(rerun_observations, [jobs[i] for i in sub], hs, warm): (hs, warm) for hs, warm in chunks}
        for fu in futs:
            hs, warm = futs[fu]
            out = fu.result()
            for i, o2 in zip(sub, out):
                r0 = res[i]
                if o2.get("machinery"):
                    rep.machinery.append(o2["machinery"])
                    continue
                rep.cov["evaluations"] += 1
                if json.dumps(o2["obs"], sort_keys=True, default=str) != json.dumps(r0.get("obs"), sort_keys=True, default=str):
                    rep.finding_or_violation("rerun/%s/%s/%s/hashseed%d-%s" % (r0["universe"], r0["real"], r0["case"], hs, "warm" if warm else "cold"),
                                             {"what": "observation log differs in a fresh process", "steps": r0.get("steps"), "first": r0.get("obs"), "second": o2["obs"]})
    rep.cov["reruns"] = {"behaviours": len(sub), "configurations": ["PYTHONHASHSEED=1 cold caches", "PYTHONHASHSEED=2 pre-warmed memo tables"]}
    return rep.finish(tier, rule="TLC -simulate behaviours (depth 12, all action families) replayed; after every step each involved object answers the query battery (area, kind, signed curve lengths, box, first moment, point membership) three times: live, on a deep copy, live again; a sample of behaviours is re-run in fresh interpreters with other hash seeds and warm/cold memo tables and the observation logs compared", exhaustive=False)



CALLS_CFG = """CONSTANTS
  NSub = %d
  NPairs = %d
  InPlaceInvert = %s
  Kinds <- MCKinds
"""


def calls_check(inplace, nsub=3, npairs=3, tag=None):
    tlc.prepare()
    root = tag or ("MCC_%s" % inplace)
    open(os.path.join(tlc.BSPEC, root + ".tla"), "w").write(
        '---- MODULE %s ----\nEXTENDS Calls\nMCKinds == {"contains","binop","sub","xor","query"}\n====\n' % root)
    cfg = CALLS_CFG % (nsub, npairs, "TRUE" if inplace else "FALSE") + "SPECIFICATION Spec\nINVARIANT Intact\n" + ("" if inplace else "INVARIANT Complete\nINVARIANT OnlySplits\n") + "CHECK_DEADLOCK FALSE\n"
    return tlc.run(root, None, cfg_text=cfg, timeout=300, tag=root)


def calls_validate(traces, tag="MCTC", npairs=6):
    """TLC: is every recorded mutation trace a behaviour of Calls (repaired design)?"""
    import re
    tlc.prepare()
    d = os.path.join(tlc.BUILD, "traces")
    os.makedirs(d, exist_ok=True)
    path = os.path.join(d, tag + ".json")
    json.dump(traces, open(path, "w"))
    open(os.path.join(tlc.BSPEC, tag + ".tla"), "w").write(
        '---- MODULE %s ----\nEXTENDS TraceCalls\nMCKinds == {"contains","binop","sub","xor","query"}\n====\n' % tag)
    cfg = CALLS_CFG % (3, npairs, "FALSE") + "SPECIFICATION TCSpec\nCONSTRAINT Guide\nPOSTCONDITION AllAccepted\nCHECK_DEADLOCK FALSE\n"
    res = tlc.run(tag, None, cfg_text=cfg, workers=1, timeout=600, tag=tag, env={"TRACE_FILE": path})
    res.accepted_all = not ("Postcondition AllAccepted" in res.out and "is false" in res.out)
    res.ok = "Finished in" in res.out and "Error" not in res.out.replace("Error: Postcondition AllAccepted", "")
    return res


def check_C11(tier, rng, rep):
    """a call that raises or is interrupted leaves operands intact"""
    from . import inject
    quick = tier == "quick"
    # (a) the model: the repaired design satisfies Intact at every crash point; the pinned
    # design (in-place inversion) must be REFUTED by TLC -- this keeps the invariant honest
    r_fixed = calls_check(False)
    rep.add_tlc("Calls/repaired-design", r_fixed)
    r_pinned = calls_check(True)
    rep.cov["tlc_runs"].append({"model": "Calls/pinned-design (expected counterexample)", "violated": r_pinned.violated, "distinct_states": r_pinned.distinct})
    if r_pinned.violated != "Intact":
        rep.machinery.append("Calls with in-place inversion should violate Intact but TLC says: %r" % r_pinned.violated)
    # (b) fault injection at internal call boundaries + mutation-event traces
    rep.level = "model_checking"
    jobs = []
    unames = ["U3hole", "U2cross"] if quick else ["U3hole", "U2cross", "U3chain", "U2comb"]
    reals = ["poly-frac", "poly-float"] if quick else ["poly-frac", "poly-float", "quad-float"]
    counts = []
    for un in unames:
        for cn in inject.case_names(un):
            counts.append((un, reals[len(counts) % len(reals)], cn, None, {}))
    if quick:
        counts = runner.sample(counts, 40, rng)
    base = runner.pool_map(inject.inject_case, counts, chunksize=1)
    traces = []
    for job, r in zip(counts, base):
        if r.get("machinery"):
            rep.machinery.append(r["machinery"])
            continue
        n = r["events"]
        traces += r.get("traces", [])
        npts = 24 if quick else 160
        ks = sorted(set(list(range(1, min(n, 12))) + [rng.randrange(1, n + 1) for _ in range(npts)] + [n, n - 1, max(1, n // 2)]))
        for chunk in range(0, len(ks), 12):
            jobs.append((job[0], job[1], job[2], ks[chunk:chunk + 12], {"kbd": True, "warm": (chunk // 12) % 2 == 1}))
    res = runner.pool_map(inject.inject_case, jobs, chunksize=1)
    rep.level = "model_checking"
    for r in res:
        traces += r.get("traces", []) if not r.get("machinery") else []
    rep.add_results("inject", res)
    rep.cov["injected_runs"] = sum(r.get("stats", {}).get("runs", 0) for r in res)
    rep.cov["calls_instrumented"] = len(counts)
    # (c) TLC validates the recorded mutation traces against Calls (repaired design)
    uniq = []
    seen = set()
    for t in traces:
        k = json.dumps(t, sort_keys=True)
        if k not in seen:
            seen.add(k)
            uniq.append(t)
    if uniq:
        npairs = max([sum(1 for e in t["log"] if e[0] == "split" and e[1] == "A") for t in uniq] + [1])
        rv = calls_validate(uniq, npairs=min(npairs, 8))
        rep.add_tlc("TraceCalls (%d distinct mutation traces)" % len(uniq), rv)
        rep.cov["mutation_traces"] = {"recorded": len(traces), "distinct": len(uniq), "accepted_all": rv.accepted_all}
        if rv.ok and not rv.accepted_all:
            rep.finding_or_violation("tracecalls/rejected", {"what": "a recorded mutation-event trace is not a behaviour of Calls (operand mutated in a way the repaired design does not allow)",
                                                             "log": rv.error_text(), "traces": uniq[:50]})
        # negative control: an in-place inversion of an operand must be rejected
        bad = [dict(uniq[0], log=list(uniq[0]["log"]) + [["invert", 0]])]
        rn = calls_validate(bad, tag="MCTCN", npairs=min(npairs, 8))
        rep.cov["negative_controls"] = {"tried": 1, "rejected": 0 if rn.accepted_all else 1}
        if rn.accepted_all:
            rep.machinery.append("negative control (operand inverted in place) accepted by TraceCalls")
    # (d) invalid arguments of the in-place transformations (BadTransform actions)
    sims, jobs2 = sim_jobs(["U2nest", "U3hole"] if quick else U2 + U3, ["poly-frac", "poly-float"] if quick else POLY + CURVED,
                           num=14 if quick else 80, depth=7, seed=runner.seed() + 12, opts={"check_c10": False},
                           acts=("make", "mkreg", "badtransform", "transform", "inv"), gens=("m1", "s1"), maxframe=1, regs=2, maxobj=5, constraint="SimDomain")
    for un, r in sims:
        rep.add_tlc("ShapeSys-sim/" + un, r)
    rep.add_results("sim", runner.pool_map(replay.run_case, jobs2))
    from . import queries
    bj = region_jobs(["U3hole", "U2nest"], ["poly-frac", "poly-float", "quad-float"] if quick else POLY + CURVED, rng, per_universe=4 if quick else None,
                     pred=lambda st, r: r not in (0, st.u.full))
    rep.add_results("badargs", runner.pool_map(queries.badargs_case, bj))
    rep.assumptions.append("crash points = PY_START events of frames whose code lives under shapepy/ (sys.monitoring), as the property's quantifier states (each internal call boundary); an interrupt between two bytecodes of one frame is not enumerated")
    return rep.finish(tier, rule="for each instrumented client-level call (operators on crossing operands, containment and == between all kinds, float/moment/deepcopy/~/point queries) the uninjected run counts N internal call boundaries; an exception (and KeyboardInterrupt at every 7th point) is raised at sampled k <= N (thorough: 160 per call), with cold and warm caches; after each the operands are compared with the specification record, the query battery, cached orientation, and the call is repeated; recorded mutation events are validated by TLC against Calls", exhaustive=False)



SIM_NAMES = ["mm", "cm", "x20", "km", "far3", "far6", "rot345", "rot90far"]
ALLP = {"C01", "C02", "C03", "C04", "C05", "C06", "C07", "C08", "C19"}


def check_C12(tier, rng, rep):
    """results do not depend on position, orientation or unit of length"""
    from . import queries
    quick = tier == "quick"
    rep.add_tlc("ShapeSys/U2corner/r2/frames", models.shapesys_check("U2corner", regs=2, maxobj=4, gens=("m1", "s1", "r1"), maxframe=1,
                                                                      props=["ResultIsSetAlgebra", "OperandsUnchanged"], invs=["TypeOK", "Canonical"],
                                                                      acts=("make", "transform", "bin", "alias"), ops=("or", "and"), tag="MCS_C12"))
    o = {"check_c10": False}
    sims = ["sim-%s-%s" % (n, k) for n in SIM_NAMES for k in ("float", "frac", "quad") if not (n == "mm" and k == "quad")]
    sims += ["sim-mmu-float", "sim-mmu-frac", "sim-mmu-float"]   # a drawing of ~1 mm in metres (boundary probes off, see F-C12)
    if quick:
        jobs = pair_jobs(U2, lambda k: [sims[k % len(sims)]], rng, per_universe=46, classes=("T",), opts=o, rowfilter=lambda u, r: r["reaches"])
        jobs += pair_jobs(U3, lambda k: [sims[(k + 5) % len(sims)]], rng, per_universe=30, classes=("T",), opts=o, rowfilter=lambda u, r: r["reaches"])
    else:
        jobs = pair_jobs(U2, lambda k: [sims[k % len(sims)], sims[(k + 9) % len(sims)]], rng, per_universe=500, classes=("T",), opts=o, rowfilter=lambda u, r: r["reaches"])
        jobs += pair_jobs(U3, lambda k: [sims[k % len(sims)], sims[(k + 7) % len(sims)]], rng, per_universe=1500, classes=("T",), opts=o, rowfilter=lambda u, r: r["reaches"])
    # curved drawings at scale 1e-2: `^` (whose final union joins touching pieces) is outside the
    # explored domain; the six failing rows of the two-atom universes are recorded findings
    jobs = [j for j in jobs if not (j[1] == "sim-cm-quad" and j[2]["row"]["op"] == "xor")]
    CMQ = {"U2corner": [("xor", 10, 3), ("xor", 5, 3)], "U2comb": [("xor", 12, 10), ("xor", 12, 5), ("xor", 3, 10), ("xor", 3, 5)]}
    for un, lst in CMQ.items():
        for row in models.pair_rows(un):
            if (row["op"], row["a"], row["b"]) in lst:
                jobs.append((un, "sim-cm-quad", replay.pair_case(Universe(un), row), o))
    # the recorded finding: curved drawings at millimetre scale (fixed rows, always run)
    jobs += pair_jobs(["U2cross", "U2bite"], ["sim-mm-quad"], random.Random(1), per_universe=12, classes=("T",), opts=o, rowfilter=lambda u, r: r["reaches"] and r["op"] == "and")
    res = runner.pool_map(replay.run_case, jobs)
    rep.add_results("pairs", res, props=ALLP, nontrivial=nontrivial_pair)
    # the same maps applied through the API to objects that were already queried: operators on
    # operands moved / rotated / scaled together must give the transformed result
    hs, hj = sim_jobs(["U2cross", "U2corner"] if quick else U2[2:] + ["U3hole"], ["poly-frac", "poly-float", "quad-float"],
                      num=90 if quick else 500, depth=10, seed=runner.seed() + 31, opts=o,
                      acts=("mkreg", "transform", "query", "bin"), gens=("r1", "R1", "m1", "s1", "r2"), maxframe=2, regs=2, maxobj=5,
                      constraint="HistDomain", tag="MCSIM_c12")
    for un, r in hs:
        rep.add_tlc("ShapeSys-sim-transform/" + un, r)
    rep.add_results("hist", runner.pool_map(replay.run_case, hj), props=ALLP | {"C09"})
    # containment and point membership under the same maps
    psq = [x for x in sims if "-mmu-" not in x]
    qj = query_rows(U2, lambda k: [psq[k % len(psq)]], rng, per_universe=14 if quick else 80, classes=("T",))
    rep.add_results("pairq", runner.pool_map(queries.pairq_case, qj), props=ALLP)
    psims = [x for x in sims if "-mm-" not in x and "-mmu-" not in x]
    pj = region_jobs(U2, lambda k: [psims[(k * 5) % len(psims)]], rng, per_universe=4 if quick else 12, pred=lambda st, r: r != 0)
    pj += region_jobs(["U2cross"], ["sim-mm-float", "sim-mmu-float"], random.Random(1), per_universe=2, pred=lambda st, r: r == 12)   # recorded finding
    rep.add_results("points", runner.pool_map(queries.points_case, pj), props=ALLP)
    rep.assumptions.append("every failure of any assertion (region, kind, loops, moments, containment, membership) under a similarity realisation counts as a C12 violation: the same abstract behaviours pass under the untransformed realisations (C01-C08)")
    return rep.finish(tier, rule="the T-class one-step operator corpus, containment rows and point membership re-executed with atoms constructed under similarity maps: scale 1e-3, 1e-2, 20, 1e5; translation 1e3, 1e6; rotation by the 3-4-5 angle and by 90 degrees far from the origin; polygon float / polygon Fraction / quadratic float; the specification behaviour is the expected result for every map", exhaustive=False)


def check_C13(tier, rng, rep):
    """rational in, exact rational out"""
    quick = tier == "quick"
    for un in (["U2cross", "U3hole"] if quick else U2 + U3):
        rep.add_tlc("PlaneThm/" + un, models.plane_thm(un, ["ThmGreen", "ThmInclExcl"]))
    o = {"check_c10": False}
    reals = ["poly-frac", "poly-int", "poly-frac-dense", "poly-frac-rot", "sim-cm-frac", "sim-rot345-frac", "poly-mixed"]
    exact_reals = reals[:6]
    if quick:
        jobs = pair_jobs(U2, lambda k: [exact_reals[k % 6]], rng, per_universe=60, classes=("T",), opts=o)
        jobs += pair_jobs(U3, lambda k: [exact_reals[k % 6]], rng, per_universe=60, classes=("T",), opts=o)
        jobs += pair_jobs(U2[2:4], ["poly-mixed"], rng, per_universe=20, classes=("T",), opts=o)
    else:
        jobs = pair_jobs(U2, reals, rng, classes=("T",), opts=o)
        jobs += pair_jobs(U3, lambda k: [exact_reals[k % 6]], rng, per_universe=1500, classes=("T",), opts=o)
    # recorded finding F-C13-intermediate-cap (fixed row, always run)
    for row in models.pair_rows("U2cross"):
        if (row["op"], row["a"], row["b"]) == ("and", 10, 12):
            jobs.append(("U2cross", "poly-frac-big", replay.pair_case(Universe("U2cross"), row), o))
    res = runner.pool_map(replay.run_case, jobs)
    rep.add_results("pairs", res, props={"C13", "C04"} , nontrivial=nontrivial_pair)
    # crossing parameters: exact rationals also when their denominators exceed 1e9
    from . import queries
    ij = []
    for un in U2 + ["U3hole"]:
        rows = [r for r in models.pair_rows(un) if r["op"] == "or" and r["cls"] == "T" and r["xing"]]
        for k, row in enumerate(runner.sample(rows, 6 if quick else len(rows), rng)):
            ij.append((un, ["poly-frac-big", "poly-frac-dense", "poly-frac"][k % 3], row, {}))
    rep.add_results("inter", runner.pool_map(queries.inter_case, ij), props={"C13", "C14"})
    # transformed coordinates under move / scale stay exact
    sims, jobs = sim_jobs(["U2corner", rng.choice(U3)] if quick else U2 + U3, ["poly-frac", "poly-int", "poly-frac-dense"],
                          num=16 if quick else 80, depth=8, seed=runner.seed() + 13, opts=o,
                          acts=("make", "mkreg", "transform", "bin", "copy", "inv"), gens=("m1", "M1", "m2", "M2", "s1", "S1", "s2", "S2"), maxframe=3, regs=3, maxobj=6, constraint="SimDomain")
    for un, r in sims:
        rep.add_tlc("ShapeSys-sim/" + un, r)
    rep.add_results("sim", runner.pool_map(replay.run_case, jobs), props={"C13", "C04", "C09"})
    rep.assumptions.append("only /venv's Python 3.12 has the repository's dependencies: the 'Python versions' part of the quantifier is not covered")
    return rep.finish(tier, rule="T-class operator rows and simulated programs with move/scale under int/Fraction realisations (integers, denominators up to 1e4 with derived values below 1e9, rational rotation): every control point of every result must be the exact rational image of its grid point with int/Fraction type, moments the exact rationals; the mixed int/Fraction/float realisation checks closeness and well-formedness only", exhaustive=not quick)



def check_C14(tier, rng, rep):
    """curve intersection reports exactly the crossings"""
    from . import queries
    quick = tier == "quick"
    for un in (["U2cross", "U2comb", "U3hole"] if quick else U2 + U3):
        rep.add_tlc("PlaneThm/" + un, models.plane_thm(un, ["ThmXings", "ThmParity"]))
    jobs = []
    reals = POLY + CURVED + ["poly-frac-dense", "poly-frac-big", "sim-far6-float", "sim-km-float"]   # quad-frac: exact Newton iterations on curved rational segments take > 30 min for a handful of pairs (II.10)
    for un in U2 + U3:
        rows = [r for r in models.pair_rows(un) if r["op"] == "or" and r["cls"] == "T" and r["a"] not in (0,) and r["b"] not in (0,) and (r["xing"] or r["a"] == r["b"])]
        rows = runner.sample(rows, 36 if quick else len(rows), rng)
        for k, row in enumerate(rows):
            for rn in ([reals[k % len(reals)]] if quick else ([r_ for r_ in reals if r_ != "quad-frac" or k % 25 == 0] if un in U2 else [reals[k % len(reals)]])):
                jobs.append((un, rn, row, {}))
    res = runner.pool_map(queries.inter_case, jobs)
    rep.add_results("inter", res, nontrivial=lambda r: r["row"]["a"] != r["row"]["b"])
    hs = [F(1, 2), F(1, 3), F(3, 4), F(5, 4), F(7, 5), 1, F(19, 10)]
    gj = [(nt, hs[k::2] if quick else hs, {}) for k, nt in enumerate(("frac", "float"))]
    rep.add_results("gallery", runner.pool_map(queries.inter_gallery_case, gj, chunksize=1))
    return rep.finish(tier, rule="T-class ordered pairs of regions whose boundaries cross (and equal pairs for the identical-segment encoding) x realisation (degree 1-3, all numeric types, far from the origin): every pair of boundary curves; reported tuples against the specification's crossing parameters (exact for rational polygons, 1e-6 otherwise), range, A(u)=B(v), operand swap, A & B, flags, crossings at vertices after both curves were split", exhaustive=not quick)



def mk_sc_behaviour(ns, calls, den=12):
    """a SplitClean behaviour written by hand (used for the recorded findings): the abstract
    states are computed with the same rules as spec/SplitClean.tla"""
    brk = [set() for _ in range(ns)]
    beh = [("SCInit", (), {"brk": tuple(frozenset() for _ in range(ns)), "last": {"call": "init"}})]
    for c in calls:
        if c == "clean":
            brk = [set() for _ in range(ns)]
            last = {"call": "clean"}
        else:
            cs = []
            for i in range(ns):
                pts = sorted(brk[i] | {0, den})
                cs += [(i, pts[k], pts[k + 1]) for k in range(len(pts) - 1)]
            for (ci, (n, d)) in c:
                i, lo, hi = cs[ci - 1]
                if n not in (0, d):
                    brk[i].add(lo + (hi - lo) * n // d)
            last = {"call": "split", "pairs": tuple((ci, (n, d)) for ci, (n, d) in c)}
        beh.append(("X", (), {"brk": tuple(frozenset(b) for b in brk), "last": last}))
    return beh


def check_C15(tier, rng, rep):
    """split and clean never change the curve"""
    from . import queries
    quick = tier == "quick"
    rep.add_tlc("SplitClean/NS4/2calls", models.splitclean_check(4, 2))
    if not quick:
        rep.add_tlc("SplitClean/NS6/2calls", models.splitclean_check(6, 2))
    jobs = []
    # seeded exploration: the domain in which no finding is recorded (polygons of every numeric
    # type near and far from the origin, quadratic and mixed-degree curves)
    reals = POLY + CURVED[:2] + ["poly-frac-dense", "sim-far3-float", "sim-far6-float", "sim-x20-quad"] + ([] if quick else ["quad-frac"])
    # recorded finding F-C15-clean-float-rounding: two fixed behaviours, always run
    jobs.append(("U2cross", "sim-km-quad", 10, mk_sc_behaviour(4, [[(1, (1, 2))], "clean"]), {}))
    jobs.append(("U3chain", "cubic-float", 32, mk_sc_behaviour(4, [[(2, (1, 1)), (1, (1, 3))], [(4, (1, 1)), (1, (1, 2)), (1, (1, 1))], [(6, (1, 3))], "clean"]), {}))
    # cubic curves: split only (no clean) behaviours are explored with the seed
    cubic_split_only = True
    # loops with 4 corners (rectangles) and 6 / 8 corners (L-shape, comb teeth)
    targets = [("U2cross", 4), ("U2bite", 4), ("U2notch", 6), ("U3chain", 4)]
    for un, ns in targets:
        st = replay._tables(un)
        regs = [r for r in range(1, st.u.full) if not st.pinch(r) and st.nloops(r) == 1 and len(st.loops(r)[0]) == ns]
        res, behs = models.splitclean_simulate(ns, num=(40 if quick else 300), depth=4, seed=runner.seed() + ns)
        # fixed behaviours: several parameters on one segment and a later segment split in the same call
        behs = [mk_sc_behaviour(ns, [[(1, (1, 3)), (1, (2, 3)), (3, (1, 2))], "clean"]),
                mk_sc_behaviour(ns, [[(2, (1, 4)), (2, (1, 2)), (2, (3, 4)), (4, (1, 2)), (ns, (1, 3))], [(1, (1, 2))], "clean"])] + behs
        rep.add_tlc("SplitClean-sim/NS%d" % ns, res)
        for k, b in enumerate(behs):
            reg = regs[k % len(regs)]
            for rn in ([reals[k % len(reals)], reals[(k + 3) % len(reals)]] if quick else reals):
                jobs.append((un, rn, reg, b, {}))
            if all(st_["last"]["call"] != "clean" for _, _, st_ in b[1:]):
                jobs.append((un, "cubic-float", reg, b, {}))
    res = runner.pool_map(queries.split_case, jobs)
    rep.add_results("split", res)
    return rep.finish(tier, rule="TLC -simulate behaviours of SplitClean (split calls with 1-3 pairs incl. parameters 0, 1, repeated and - in float realisations - nearly repeated / near-0 / near-1 values, clean calls; 4 calls) replayed on curves of degree 1-3: segment count, each piece retraces orig_i(lo + s(hi-lo)) at 5 values of s (exact for rational polygons, 1e-6 curved), junction identity, zero-length pieces, area, orientation, clean idempotent, split;clean == original", exhaustive=False)



def _const_export(root, module, cfg_text, out_name, define=""):
    """run a constant-level module whose ASSUMEs are the theorems and whose last ASSUME exports JSON"""
    tlc.prepare()
    open(os.path.join(tlc.BSPEC, root + ".tla"), "w").write("---- MODULE %s ----\nEXTENDS %s\n%s====\n" % (root, module, define))
    out = os.path.join(tlc.BUILD, out_name)
    if os.path.exists(out):
        os.remove(out)
    res = tlc.run(root, None, cfg_text=cfg_text, workers=1, timeout=600, env={"VERIF_OUT": out}, tag=root)
    if res.ok and not os.path.exists(out):
        res.ok = False
    # constant-level modules have no states: report the number of exported rows instead
    return res, out


def check_C16(tier, rng, rep):
    """primitive factories build the documented shapes or raise ValueError"""
    from . import queries
    quick = tier == "quick"
    res, path = _const_export("MCPR", "Prims", "", "prims.json")
    rep.add_tlc("Prims (ThmMonotone, ThmContract as ASSUMEs; table export)", res)
    if not res.ok:
        return rep.finish(tier, rule="-")
    ncase = len(json.load(open(path))["cases"])
    rep.cov["states"] += ncase
    rep.cov["transitions"] += ncase
    idx = list(range(ncase))
    if quick:
        idx = runner.sample(idx, 400, rng)
    jobs = [(path, idx[k:k + 20], {"sweep": k == 0}) for k in range(0, len(idx), 20)]
    res = runner.pool_map(queries.prims_case, jobs, chunksize=1)
    rep.add_results("prims", res)
    rep.cov["factory_calls"] = sum(r.get("stats", {}).get("calls", 0) for r in res)
    rep.level = "exploration"
    rep.assumptions.append("the trigonometric closed forms (regular polygon vertices and area, circle band and area bounds, pi) are harness oracles attached to the specification's cases; the specification contributes the case enumeration, the ValueError table and the abstract contract (DESIGN.md section 10)")
    return rep.finish(tier, rule="rows of the decision table exported by TLC from Prims.tla (factory x size class x centre class x count class), each instantiated with 1-3 concrete values per class: outcome, kind, orientation, segment count/degree, vertices (exact when the table says so), closed-form area, circle band, centre/far-point membership; polygon() vertex order and orientation; circle area monotone to pi r^2", exhaustive=not quick)


def check_C17(tier, rng, rep):
    """Jordan-curve constructors agree with each other and reject open chains"""
    from . import queries
    quick = tier == "quick"
    res, path = _const_export("MCCV", "Curves", "CONSTANTS\n  NPts = 4\n  MaxLen = 4\n", "curves.json")
    rep.add_tlc("Curves (ThmVertices, ThmDetermined, ThmReverse as ASSUMEs; chain export)", res)
    if not res.ok:
        return rep.finish(tier, rule="-")
    chains = json.load(open(path))["chains"]
    rep.cov["states"] += len(chains)
    rep.cov["transitions"] += len(chains)
    closed = [k for k, c in enumerate(chains) if c["closed"]]
    opened = [k for k, c in enumerate(chains) if not c["closed"]]
    pick = closed + (runner.sample(opened, 900, rng) if quick else opened)
    jobs = []
    for n, (nt, deg) in enumerate((("int", 1), ("frac", 1), ("float", 1), ("float", 2), ("frac", 2))):
        sub = pick if not quick else pick[n::5] + closed
        for k in range(0, len(sub), 60):
            jobs.append((path, sub[k:k + 60], {"numtype": nt, "deg": deg}))
    res = runner.pool_map(queries.chains_case, jobs, chunksize=1)
    rep.add_results("chains", res)
    rep.cov["constructions"] = sum(r.get("stats", {}).get("constructions", 0) for r in res)
    one = lambda st, r: r not in (0, st.u.full)
    rj = region_jobs(U2 + U3, lambda k: [(POLY + CURVED)[k % 6]], rng, per_universe=8 if quick else None, pred=one)   # quad-frac: == on Fraction curves takes minutes
    res = runner.pool_map(queries.ctors_case, rj)
    rep.add_results("ctors", res)
    return rep.finish(tier, rule="(a) every chain of <= 4 segments over 4 points enumerated by TLC (all 120 closed ones, a seeded sample of the 22 488 open ones in the quick tier) through from_segments and from_ctrlpoints with int/Fraction/float points and degree 1-2: accepted iff closed, vertex cycle, junction identity; non-curve arguments; (b) every boundary loop of sampled regions under realisations of degree 1-3 built by from_vertices / from_segments / from_ctrlpoints / from_full_curve from two start rotations: pairwise ==, vertices, box, signed length, area, orientation", exhaustive=not quick)


def check_C18(tier, rng, rep):
    """segment calculus is exact"""
    from . import queries
    quick = tier == "quick"
    prng = random.Random(runner.seed() + 18)
    polys = []
    for p in range(1, 7):
        for _ in range(6 if quick else 14):
            polys.append([prng.randint(-3, 3) for _ in range(p + 1)])
        polys.append(list(range(-p, p + 1, 2))[: p + 1] if len(list(range(-p, p + 1, 2))) >= p + 1 else list(range(p + 1)))   # monotone: regular segment
        polys.append(list(range(p + 1)))
    define = "MCNodes == {<<0,1>>, <<1,4>>, <<1,3>>, <<1,2>>, <<2,3>>, <<3,4>>, <<1,1>>}\nMCPolys == << %s >>\n" % ", ".join("<<%s>>" % ", ".join(map(str, q)) for q in polys)
    res, path = _const_export("MCB", "Bezier", "CONSTANTS\n  MaxDeg = 6\n  Nodes <- MCNodes\n  Polys <- MCPolys\n", "bezier.json", define=define)
    rep.add_tlc("Bezier (ThmCaract, ThmPartition, ThmDeriv, ThmSplitLeft, ThmSplitRight as ASSUMEs; value export)", res)
    if not res.ok:
        return rep.finish(tier, rule="-")
    nobl = 6 * 7 * 7 + len(polys) * 7 * 8
    rep.cov["states"] += nobl
    rep.cov["transitions"] += nobl
    jobs = []
    per = len(polys) // 6
    for p in range(6):
        ks = list(range(p * per, (p + 1) * per))
        for i, kx in enumerate(ks):
            for ky in (ks[(i + 1) % per], ks[-1]):
                for nt in ("frac", "int", "float"):
                    jobs.append((path, kx, ky, {"numtype": nt}))
    res = runner.pool_map(queries.bezier_case, jobs)
    rep.add_results("bezier", res)
    rep.assumptions.append("the subtended-angle oracle for the winding contribution uses atan2 (outside TLA+)")
    return rep.finish(tier, rule="control polygons with integer coordinates in -3..3, degrees 1..6 (drawn from VERIF_SEED, plus monotone ones): TLC proves the Bernstein identities at 7 rational nodes and exports B(t), B'(t), derivative control points and de Casteljau pieces as exact rationals; the harness replays them through segment(t), eval, derivate(k), split, box, the memoised characteristic matrix (cold and warm), point-on-curve and winding for regular segments, with int, Fraction and float control points", exhaustive=False)


def check_C20(tier, rng, rep):
    """plotting draws exactly the boundary"""
    from . import queries
    quick = tier == "quick"
    for un in (["U2cross", "U3hole"] if quick else U2 + U3):
        rep.add_tlc("PlaneThm/" + un, models.plane_thm(un, ["ThmLoops", "ThmLoopCorners", "ThmKindShape"]))
    reals = ["poly-frac", "poly-float", "quad-float", "mixdeg-float", "cubic-float"]
    jobs = region_jobs(U2 + U3, lambda k: [reals[k % 5]] if quick else reals, rng, per_universe=10 if quick else None)
    jobs += region_jobs(U2, lambda k: [reals[(k + 2) % 5]], rng, per_universe=3 if quick else None, pred=lambda st, r: r not in (0, st.u.full), opts={"redundant": True})
    res = runner.pool_map(queries.plot_case, jobs)
    rep.add_results("plot", res)
    return rep.finish(tier, rule="(universe, pinch-free region incl. Empty and Whole, realisation of degree 1 / 2 / mixed / 3): ShapePloter.plot on the Agg backend; the patches are read back: number of filled paths = components and outlines = loops of the specification's PlotPlan, per path the code sequence MOVETO (LINETO | CURVE3 x2 | CURVE4 x3)* CLOSEPOLY and the vertices = control points in order, fill colour by boundedness, shape unchanged", exhaustive=not quick)


def check_C19(tier, rng, rep):
    """direct composite constructors equal operator results"""
    from . import queries
    quick = tier == "quick"
    un = "U2comb" if quick else "U2comb"
    rep.add_tlc("ShapeSys/%s/r2" % un, models.shapesys_check(un, regs=2, maxobj=4, props=["ResultIsSetAlgebra", "FreshResults"], invs=["TypeOK", "Canonical"], acts=("mkreg", "bin", "query")))
    multi = lambda st, r: st.nloops(r) >= 2
    if quick:
        jobs = region_jobs(U2 + U3, lambda k: [(POLY + CURVED[:2])[k % 5]], rng, per_universe=7, pred=multi)
    else:
        jobs = region_jobs(U2 + U3, POLY + CURVED, rng, pred=multi)
    res = runner.pool_map(queries.c19_case, jobs)
    rep.add_results("c19", res)
    rep.cov["orders_tried"] = sum(r.get("stats", {}).get("perms", 0) for r in res)
    return rep.finish(tier, rule="(universe, pinch-free region with >= 2 boundary curves, realisation): ConnectedShape/DisjointShape built directly from the boundary loops in up to 6 orders of components x 6 orders of holes, with and without Empty entries, compared with the specification record, with the operator-built object (== both ways), complement; collapse rules", exhaustive=not quick)


CHECKS = {"C01": check_C01, "C02": check_C02, "C03": check_C03, "C04": check_C04, "C05": check_C05, "C06": check_C06,
          "C07": check_C07, "C08": check_C08, "C09": check_C09, "C10": check_C10, "C11": check_C11, "C12": check_C12, "C13": check_C13, "C14": check_C14, "C15": check_C15, "C16": check_C16, "C17": check_C17, "C18": check_C18, "C19": check_C19, "C20": check_C20}



def replay_file(prop, path):
    """bin/check <id> --replay <file>: re-execute the single case a VIOLATION line points to"""
    from . import queries
    d = json.load(open(path))
    key, det = d["key"], d["detail"]
    parts = key.split("/")
    eng, un, rn = parts[0], parts[1] if len(parts) > 1 else None, parts[2] if len(parts) > 2 else None
    print("replaying", key)
    res = None
    if eng in ("pairs", "pairq", "incl", "inter") and len(parts) > 3 and parts[3].count(":") == 2:
        op, a, b = parts[3].split(":")
        rows = [r for r in models.pair_rows(un) if r["a"] == int(a) and r["b"] == int(b) and (r["op"] == op or (eng != "pairs" and r["op"] == "or"))]
        if rows:
            row = rows[0]
            res = {"pairs": lambda: replay.run_case((un, rn, replay.pair_case(Universe(un), row), {"check_c10": False})),
                   "pairq": lambda: queries.pairq_case((un, rn, row, {})), "incl": lambda: queries.incl_excl_case((un, rn, row, {})),
                   "inter": lambda: queries.inter_case((un, rn, row, {}))}[eng]()
    elif eng in ("points", "moments", "ctors", "plot", "c19", "badargs") and len(parts) > 3:
        reg = int(parts[3].split(":")[1])
        fn = {"points": queries.points_case, "moments": queries.moments_case, "ctors": queries.ctors_case, "plot": queries.plot_case,
              "c19": queries.c19_case, "badargs": queries.badargs_case}[eng]
        res = fn((un, rn, reg, {}))
    if res is None:
        print("this kind of case is not re-executable from the file alone; recorded detail:")
        print(json.dumps(det, indent=1, default=str)[:4000])
        return 1
    if res.get("machinery"):
        print(res["machinery"])
        return 2
    bad = [f for f in res["fails"]]
    for f in bad:
        print("  FAIL", f["property"], f["what"], {k: v for k, v in f.items() if k not in ("property", "what", "tb")})
    print("VIOLATION property=%s replay=%s" % (prop, path) if bad else "the case passes on this tree")
    return 1 if bad else 0


def main(argv=None):
    ap = argparse.ArgumentParser()
    ap.add_argument("prop")
    ap.add_argument("--tier", default=None)
    ap.add_argument("--seed", default=None)
    ap.add_argument("--replay", default=None)
    a = ap.parse_args(argv)
    if a.seed is not None:
        os.environ["VERIF_SEED"] = str(a.seed)
    if a.replay:
        sys.exit(replay_file(a.prop, a.replay))
    t = runner.tier(a.tier)
    rng = random.Random(runner.seed() * 7919 + sum(map(ord, a.prop)))
    rep = runner.Report(a.prop)
    try:
        # specification tables are produced (or read from the cache) once, in the parent,
        # before any worker process is forked
        for un in U2 + U3 + ["U3dot", "U3far"]:
            replay._tables(un)
            models.pair_rows(un)
        rc = CHECKS[a.prop](t, rng, rep)
    except tlc.MachineryError as ex:
        sys.stderr.write("MACHINERY FAILURE: %s\n" % ex)
        rc = 2
    sys.exit(rc)


if __name__ == "__main__":
    main()
