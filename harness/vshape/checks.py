"""The registered checks, one function per property (bin/check dispatches here)."""
from __future__ import annotations

import argparse
import json
import os
import random
import sys
import time

from . import models, realise, replay, runner, spectab, tlc
from .universe import CATALOGUE, Universe

U2 = ["U2disj", "U2nest", "U2corner", "U2bite", "U2cross", "U2notch", "U2comb"]
U3 = ["U3venn", "U3hole", "U3chain"]
POLY = ["poly-frac", "poly-int", "poly-float"]
CURVED = ["quad-float", "mixdeg-float", "cubic-float"]
EXTRA = ["poly-mixed", "poly-frac-rot", "quad-frac"]


def pair_jobs(unames, reals, rng, *, per_universe=None, classes=("T", "I", "P"), ops=None, opts=None, rowfilter=None):
    jobs = []
    for un in unames:
        u = Universe(un)
        rows = [r for r in models.pair_rows(un) if r["cls"] in classes and (ops is None or r["op"] in ops)]
        if rowfilter:
            rows = [r for r in rows if rowfilter(u, r)]
        if per_universe is not None:
            rows = runner.sample(rows, per_universe, rng)
        for k, row in enumerate(rows):
            for rn in reals if not callable(reals) else reals(k):
                jobs.append((un, rn, replay.pair_case(u, row), opts or {}))
    return jobs


def sim_jobs(unames, reals, *, num, depth, seed, opts=None, **kw):
    jobs = []
    results = []
    for un in unames:
        res, behs = models.shapesys_simulate(un, num=num, depth=depth, seed=seed, **kw)
        results.append((un, res))
        for b in behs:
            case = {"label": "sim", "universe": un, "steps": b}
            for rn in reals:
                jobs.append((un, rn, case, opts or {}))
    return results, jobs


def nontrivial_pair(r):
    row = r.get("row")
    if not row:
        return True
    return row["a"] not in (0,) and row["b"] not in (0,) and row["res"] != row["a"] and row["res"] != row["b"]


# ---------------------------------------------------------------------------
def check_C01(tier, rng, rep):
    """boolean operators are set-theoretic, point by point"""
    quick = tier == "quick"
    # (a) the model: region algebra theorems + the heap model's ResultIsSetAlgebra
    for un in ([rng.choice(U2), "U3hole"] if quick else U2 + U3):
        rep.add_tlc("PlaneThm/" + un, models.plane_thm(un, ["ThmSubset", "ThmSingletonLaws", "ThmXorTouch", "ThmParity"]))
    un = rng.choice(["U2corner", "U2bite", "U2cross"]) if quick else "U2cross"
    rep.add_tlc("ShapeSys/%s/r2" % un, models.shapesys_check(un, regs=2, maxobj=4, props=["ResultIsSetAlgebra"], invs=["TypeOK"],
                                                                acts=("make", "bin", "inv")))
    # (b) one-step behaviours: every operator on every ordered pair of pinch-free regions
    jobs = []
    o = {"check_c10": False}
    if quick:
        jobs += pair_jobs(U2, lambda k: [POLY[k % 3]], rng, per_universe=110, opts=o)
        jobs += pair_jobs(U2, lambda k: [CURVED[k % 3]], rng, per_universe=30, classes=("T",), opts=o)
        jobs += pair_jobs(U3, lambda k: [(POLY + CURVED)[k % 6]], rng, per_universe=120, classes=("T",), opts=o)
    else:
        jobs += pair_jobs(U2, POLY + CURVED + EXTRA, rng, opts=o)
        jobs += pair_jobs(["U3hole", "U3chain"], POLY + CURVED, rng, classes=("T",), opts=o)
        jobs += pair_jobs(["U3venn"], lambda k: [(POLY + CURVED + EXTRA)[k % 9]], rng, classes=("T",), opts=o)
    res = runner.pool_map(replay.run_case, jobs)
    rep.add_results("pairs", res, nontrivial=nontrivial_pair)
    # (c) nested expressions: simulated behaviours of the heap model
    sims, jobs = sim_jobs([rng.choice(U2[2:])] if quick else U2[2:] + ["U3hole"], ["poly-frac", "poly-float"] if quick else POLY + CURVED,
                          num=40 if quick else 200, depth=9, seed=runner.seed() + 11, opts=o,
                          acts=("make", "bin", "inv"), regs=3, maxobj=6)
    for un, r in sims:
        rep.add_tlc("ShapeSys-sim/" + un, r)
    res = runner.pool_map(replay.run_case, jobs)
    rep.add_results("sim", res)
    rep.assumptions += [
        "witness points are classified in the rational pre-image of the realisation (exact); projection uses one witness per inner cell plus far points",
        "operands of the one-step corpus are built with the direct constructors (C19's subject)",
    ]
    return rep.finish(tier, rule="one-step behaviours = (operator, ordered pair of pinch-free regions) rows computed by TLC from ShapeSys!BinEffect, "
                      "each replayed under a realisation; distinct = (universe, row, realisation); non-trivial = result differs from both operands and no Empty operand; "
                      "plus TLC -simulate behaviours of make/bin/inv actions", exhaustive=not quick)


CHECKS = {"C01": check_C01}


def main(argv=None):
    ap = argparse.ArgumentParser()
    ap.add_argument("prop")
    ap.add_argument("--tier", default=None)
    ap.add_argument("--seed", default=None)
    ap.add_argument("--replay", default=None)
    a = ap.parse_args(argv)
    if a.seed is not None:
        os.environ["VERIF_SEED"] = str(a.seed)
    t = runner.tier(a.tier)
    rng = random.Random(runner.seed() * 7919 + sum(map(ord, a.prop)))
    rep = runner.Report(a.prop)
    try:
        rc = CHECKS[a.prop](t, rng, rep)
    except tlc.MachineryError as ex:
        sys.stderr.write("MACHINERY FAILURE: %s\n" % ex)
        rc = 2
    sys.exit(rc)


if __name__ == "__main__":
    main()
