"""Executing specification actions on real shapepy objects and projecting real
objects back onto the abstract state (DESIGN.md section 5.1)."""
from __future__ import annotations

import copy as _copy
import os
import sys
from fractions import Fraction as F

from .realise import Affine, Real, frame_affine, gen_table, EXACT_GENS

_SP = None


def shapepy():
    """import the implementation from /repo/src (or $SHAPEPY_SRC for scratch copies)"""
    global _SP
    if _SP is None:
        src = os.environ.get("SHAPEPY_SRC", "/repo/src")
        if sys.path[0] != src:
            sys.path.insert(0, src)
        import warnings

        warnings.simplefilter("ignore")
        import shapepy as sp

        assert os.path.abspath(sp.__file__).startswith(os.path.abspath(src)), sp.__file__
        _SP = sp
    return _SP


class Failure:
    """one failed assertion, attributed to a property"""

    def __init__(self, prop, what, **detail):
        self.prop = prop
        self.what = what
        self.detail = detail

    def as_dict(self):
        d = {"property": self.prop, "what": self.what}
        d.update({k: _js(v) for k, v in self.detail.items()})
        return d

    def __repr__(self):
        return "Failure(%s, %s, %r)" % (self.prop, self.what, self.detail)


def _js(v):
    if isinstance(v, F):
        return str(v)
    if isinstance(v, (set, frozenset)):
        return sorted(_js(x) for x in v)
    if isinstance(v, (list, tuple)):
        return [_js(x) for x in v]
    if isinstance(v, dict):
        return {str(k): _js(x) for k, x in v.items()}
    if isinstance(v, (int, float, str, bool)) or v is None:
        return v
    return repr(v)


KINDNAME = {
    "EmptyShape": "E",
    "WholeShape": "W",
    "SimpleShape": "S",
    "ConnectedShape": "C",
    "DisjointShape": "D",
}


def kind_of(obj):
    return KINDNAME.get(type(obj).__name__, "?")


def insert_splits(loop, splits):
    """corner cycle + redundant vertices -> full vertex cycle"""
    out = []
    n = len(loop)
    for k in range(n):
        P, Q = loop[k], loop[(k + 1) % n]
        out.append(P)
        mid = []
        for s in splits:
            if P[0] == Q[0] == s[0] and min(P[1], Q[1]) < s[1] < max(P[1], Q[1]):
                mid.append(s)
            elif P[1] == Q[1] == s[1] and min(P[0], Q[0]) < s[0] < max(P[0], Q[0]):
                mid.append(s)
        mid.sort(key=lambda s: abs(s[0] - P[0]) + abs(s[1] - P[1]))
        out.extend(mid)
    return tuple(out)


def norm_cycle(cyc):
    cyc = list(cyc)
    if not cyc:
        return ()
    m = cyc.index(min(cyc))
    return tuple(cyc[m:] + cyc[:m])


def drop_collinear(cyc):
    n = len(cyc)
    out = [
        cyc[k]
        for k in range(n)
        if (cyc[k][0] - cyc[k - 1][0]) * (cyc[(k + 1) % n][1] - cyc[k][1])
        != (cyc[k][1] - cyc[k - 1][1]) * (cyc[(k + 1) % n][0] - cyc[k][0])
    ]
    return tuple(out)


class World:
    """real objects bound to the registers of a specification behaviour"""

    def __init__(self, st, real: Real, *, wlevel=1, probe=True):
        self.probe = probe   # boundary probes (off for realisations below the library's absolute tolerances)
        self.st = st
        self.u = st.u
        self.real = real
        self.sp = shapepy()
        self.regs = {}
        self.wit = real.witnesses(level=wlevel)
        # witnesses used to project an object onto a region: the centre of every inner
        # cell, four cells of the outer ring and the far points ('e'/'k' witnesses close
        # to the boundary are used by the point-membership check C02)
        N = self.u.N
        ring = {(1, 1), (N, 1), (1, N), (N, N), (1, N // 2), (N // 2, N)}
        self.wit_region = [
            t for t in self.wit
            if t[0] == "f" or (t[0] == "c" and ((1 < t[1][0] < N and 1 < t[1][1] < N) or t[1] in ring))
        ]
        self._lookups = {}
        self.gens = gen_table(real.numtype)
        self.curved = real.deg > 1

    # ------------------------------------------------------------ construction
    def qpoint(self, p):
        """numeric type used for query points"""
        if self.real.numtype in ("frac", "int") and not self.curved:
            return (F(p[0]), F(p[1]))
        return (float(p[0]), float(p[1]))

    def simple_from_loop(self, loop, T=None, ctor=None, rot=None):
        sp, real = self.sp, self.real
        ctor = ctor or real.ctor
        ctrl = real.loop_ctrl(loop, rot=rot, T=T)
        alldeg1 = all(len(c) == 2 for c in ctrl)
        if ctor in ("polygon", "vertices") and not alldeg1:
            ctor = "ctrlpoints"
        if ctor == "polygon":
            return sp.Primitive.polygon([real.npt(c[0]) for c in ctrl])
        if ctor == "vertices":
            return sp.SimpleShape(
                sp.JordanCurve.from_vertices([real.npt(c[0]) for c in ctrl])
            )
        if ctor == "ctrlpoints":
            return sp.SimpleShape(
                sp.JordanCurve.from_ctrlpoints(
                    [[real.npt(p) for p in c] for c in ctrl]
                )
            )
        if ctor == "segments":
            segs = [sp.PlanarCurve([real.npt(p) for p in c]) for c in ctrl]
            return sp.SimpleShape(sp.JordanCurve.from_segments(segs))
        raise ValueError(ctor)

    def components(self, reg):
        """loops of a pinch-free region grouped by connected component"""
        u = self.u
        loops = self.st.loops(reg)
        cells = u.cells_of(reg)
        comps = u._components(cells)
        groups = [[] for _ in comps]
        for lp in loops:
            # the cell to the left of the first edge
            P, Q = lp[0], lp[1]
            dx, dy = (Q[0] > P[0]) - (Q[0] < P[0]), (Q[1] > P[1]) - (Q[1] < P[1])
            if dx:  # horizontal edge at y = P[1]; left = +y if dx>0
                i = P[0] + (1 if dx > 0 else 0)
                j = P[1] + (1 if dx > 0 else 0)
            else:  # vertical edge at x = P[0]; left = -x if dy>0
                i = P[0] + (0 if dy > 0 else 1)
                j = P[1] + (1 if dy > 0 else 0)
            cell = (i, j)
            assert cell in cells, (reg, lp, cell)
            for k, c in enumerate(comps):
                if cell in c:
                    groups[k].append(lp)
        return groups

    def canonical_variant(self, reg, word=(), rot=None, numtype=None, ctor=None):
        """the same region built with another start vertex / numeric type / constructor"""
        if numtype is None:
            return self.canonical(reg, word, rot=rot, ctor=ctor)
        other = World(self.st, self.real.clone(numtype=numtype), wlevel=0)
        return other.canonical(reg, word, rot=rot, ctor=ctor)

    def canonical(self, reg, word=(), rot=None, ctor=None):
        """object for region `reg` built WITHOUT operators (direct constructors)"""
        sp = self.sp
        if reg == 0:
            return sp.EmptyShape()
        if reg == self.u.full:
            return sp.WholeShape()
        if self.st.pinch(reg):
            return None
        T = frame_affine(word) if word else None
        parts = []
        for group in self.components(reg):
            simples = [self.simple_from_loop(lp, T=T, rot=rot, ctor=ctor) for lp in group]
            parts.append(simples[0] if len(simples) == 1 else sp.ConnectedShape(simples))
        return parts[0] if len(parts) == 1 else sp.DisjointShape(parts)

    # ------------------------------------------------------------ projection
    def lookup(self, word):
        key = tuple(word)
        if key not in self._lookups:
            T = frame_affine(word) if word else None
            self._lookups[key] = self.real.grid_lookup(T)
        return self._lookups[key]

    def contains(self, obj, pt):
        if kind_of(obj) in "EW":
            return kind_of(obj) == "W"
        return obj.contains_point(pt)

    def project_region(self, obj, word=(), kinds="c", wit=None):
        """-> (region int or None, list of offending witnesses)"""
        T = frame_affine(word) if word else None
        votes = {}
        bad = []
        for kind, key, g in (wit if wit is not None else self.wit_region):
            if kind not in kinds and kind != "f":
                continue
            p = self.qpoint(self.real.img(g[0], g[1], T))
            try:
                ans = bool(p in obj)
            except BaseException as ex:  # noqa
                bad.append((kind, key, g, "raised %s" % type(ex).__name__))
                continue
            face = 0 if kind == "f" else self.u.cell_face[key]
            votes.setdefault(face, {}).setdefault(ans, []).append((kind, key, g))
        reg = 0
        for face, v in votes.items():
            if len(v) == 2:
                minority = min(v.values(), key=len)
                bad.extend((k, key, g, "disagrees within face %d" % face) for k, key, g in minority[:3])
                if len(v[True]) >= len(v[False]):
                    reg |= 1 << face
            elif True in v:
                reg |= 1 << face
        return (reg, bad)

    def boundary_probe(self, obj, reg, word=(), *, what="object", tag="C02", nmax=6):
        """points ON the boundary of the region (mid-points of unit edges of its boundary and
        its corners): contained with boundary=True, not contained with boundary=False"""
        key = ("bprobe", reg)
        if key not in self._lookups:
            pm = self.st.passmap(reg)
            u = self.u
            cand = []
            for (i, j), v in sorted(pm.items()):
                if v == "c":
                    cand.append((F(i), F(j)))
                if v in "hcv":
                    for di, dj in ((1, 0), (0, 1)):
                        q = (i + di, j + dj)
                        if q in pm and pm[q] != "n":
                            # the unit edge (i,j)-(q) belongs to the boundary iff the two cells beside it differ
                            if di:
                                cs = [(i + 1, j), (i + 1, j + 1)]
                            else:
                                cs = [(i, j + 1), (i + 1, j + 1)]
                            cs = [c for c in cs if 1 <= c[0] <= u.N and 1 <= c[1] <= u.N]
                            if len(cs) == 2 and len({bool((reg >> u.cell_face[c]) & 1) for c in cs}) == 2:
                                cand.append((i + F(di, 2), j + F(dj, 2)))
            step = max(1, len(cand) // nmax)
            self._lookups[key] = cand[::step][:nmax]
        T = frame_affine(word) if word else None
        fails = []
        for g in self._lookups[key]:
            p = self.qpoint(self.real.img(g[0], g[1], T))
            try:
                c, o = obj.contains_point(p, True), obj.contains_point(p, False)
            except BaseException as ex:  # noqa
                fails.append(Failure(tag, "boundary point query raised", where=what, exc=repr(ex), point=g))
                break
            if c is not True or o is not False:
                fails.append(Failure(tag, "boundary point misclassified", where=what, reg=reg, point=g, closed=repr(c), open=repr(o)))
                break
        return fails

    def vertex_cycles(self, obj, word=()):
        """per jordan: cycle of grid points of the segment start points (None where a
        vertex is not the image of a grid point)"""
        look = self.lookup(word)
        out = []
        for jordan in obj.jordans:
            out.append(tuple(look(seg.ctrlpoints[0]) for seg in jordan.segments))
        return out

    def ident(self, obj):
        """ids of every mutable object reachable from a shape"""
        ids = set()
        if kind_of(obj) in "EW":
            return ids
        for jordan in obj.jordans:
            ids.add(id(jordan))
            for seg in jordan.segments:
                for p in seg.ctrlpoints:
                    ids.add(id(p))
        return ids

    def snapshot(self, obj):
        """bit-exact representation of the geometry of an object (for 'unchanged')"""
        if kind_of(obj) in "EW":
            return kind_of(obj)
        return tuple(
            tuple(tuple((p[0], p[1]) for p in seg.ctrlpoints) for seg in j.segments)
            for j in obj.jordans
        )

    # ------------------------------------------------------------ comparison
    def compare(self, obj, rec, *, what="object", props=None, deep=True, tags=None, exact=None):
        """compare a real object with the specification record [reg, frame, splits, segk]
        -> list of Failure.  `tags` maps assertion family -> property id."""
        tg = {"region": "C01", "kind": "C06", "loops": "C06", "moment": "C04", "type": "C13"}
        tg.update(tags or {})
        st, u = self.st, self.u
        reg, word = rec["reg"], tuple(rec.get("frame", ()))
        fails = []
        k = kind_of(obj)
        if reg in (0, u.full):
            want = "E" if reg == 0 else "W"
            if k != want:
                fails.append(Failure(tg["kind"], "singleton expected", where=what, expected=want, got=k))
            elif obj is not (self.sp.EmptyShape() if reg == 0 else self.sp.WholeShape()):
                fails.append(Failure(tg["kind"], "not the singleton instance", where=what))
            return fails
        if k in "EW?":
            fails.append(Failure(tg["region"], "singleton/unknown returned for a proper region", where=what, expected_reg=reg, got=k))
            return fails
        got, bad = self.project_region(obj, word)
        if got != reg or bad:
            fails.append(Failure(tg["region"], "region mismatch", where=what, expected_reg=reg, got_reg=got, witnesses=bad[:4]))
            return fails
        if k not in st.kindset(reg):
            fails.append(Failure(tg["kind"], "kind mismatch", where=what, reg=reg, expected=sorted(st.kindset(reg)), got=k))
        if not deep:
            return fails
        if self.probe:
            fails.extend(self.boundary_probe(obj, reg, word, what=what, tag=tg.get("boundary", tg["region"])))
        if not st.pinch(reg):
            cyc = self.vertex_cycles(obj, word)
            if len(cyc) != st.nloops(reg):
                fails.append(Failure(tg["loops"], "number of boundary curves", where=what, reg=reg, expected=st.nloops(reg), got=len(cyc)))
            elif any(None in c for c in cyc):
                # a vertex that is not the image of a grid point can only come from a split
                # the model does not predict (segk = FALSE: non-transversal operands)
                if rec.get("segk", False):
                    fails.append(Failure(tg["loops"], "vertex off the grid", where=what, reg=reg, got=cyc))
            else:
                gotc = sorted(norm_cycle(drop_collinear(c)) for c in cyc)
                want = sorted(st.loops(reg))
                if gotc != want:
                    fails.append(Failure(tg["loops"], "boundary loops differ", where=what, reg=reg, expected=want, got=gotc))
                elif rec.get("segk", False):
                    splits = [tuple(p) for p in rec.get("splits", ())]
                    wantv = sorted(norm_cycle(insert_splits(lp, splits)) for lp in st.loops(reg))
                    gotv = sorted(norm_cycle(c) for c in cyc)
                    if gotv != wantv:
                        fails.append(Failure(tg.get("vertices", tg["loops"]), "vertex cycles differ (segmentation)", where=what, reg=reg, expected=wantv, got=gotv))
        fails.extend(self.compare_moments(obj, reg, word, what=what, tags=tg, exact=exact))
        if (exact is None or exact) and self.exact_mode(word):
            fails.extend(self.exact_vertices(obj, word, what=what, tag=tg.get("type", "C13")))
        return fails

    def exact_mode(self, word=()):
        return (
            self.real.numtype in ("frac", "int")
            and not self.curved
            and all(g in EXACT_GENS for g in word)
        )

    def compare_moments(self, obj, reg, word=(), *, what="object", orders=((0, 0), (1, 0), (0, 1), (2, 0), (1, 1), (0, 2)), tags=None, exact=None):
        tg = {"moment": "C04", "type": "C13"}
        tg.update(tags or {})
        sp = self.sp
        T = frame_affine(word) if word else Affine()
        fails = []
        exact = self.exact_mode(word) if exact is None else (exact and self.exact_mode(word))
        deg = self.real.deg
        for a, b in orders:
            exp = self.real.moment(reg, a, b, T)
            try:
                got = sp.IntegrateShape.polynomial(obj, a, b)
            except BaseException as ex:  # noqa
                fails.append(Failure(tg["moment"], "moment raised", where=what, reg=reg, ab=(a, b), exc=repr(ex)))
                break
            if exact:
                if isinstance(got, float) or not (got == exp):
                    prop = tg["type"] if isinstance(got, float) and abs(float(got) - float(exp)) < 1e-9 * max(1, abs(float(exp))) else tg["moment"]
                    fails.append(Failure(prop, "moment not the exact rational", where=what, reg=reg, ab=(a, b), expected=exp, got=repr(got)))
            else:
                scale = float(self.abs_moment(a, b, T))
                quad_exact = deg == 1 or (deg == 2 and a + b <= 2) or (deg == 3 and a + b == 0)
                tol = 1e-9 if quad_exact else 2e-3
                if not abs(float(got) - float(exp)) <= tol * scale:
                    fails.append(Failure(tg["moment"], "moment differs", where=what, reg=reg, ab=(a, b), expected=float(exp), got=float(got), tol=tol * scale))
        return fails

    def exact_vertices(self, obj, word=(), *, what="object", tag="C13"):
        """C13: with rational input every control point is the exact rational image of a
        grid point, stored as int/Fraction with int numerator and denominator"""
        import fractions
        fails = []
        T = frame_affine(word) if word else None
        look = self.lookup(word)
        for jordan in obj.jordans:
            for seg in jordan.segments:
                for p in seg.ctrlpoints:
                    for c in (p[0], p[1]):
                        okt = isinstance(c, int) or (isinstance(c, fractions.Fraction) and isinstance(c.numerator, int) and isinstance(c.denominator, int))
                        if not okt:
                            fails.append(Failure(tag, "coordinate is not an exact rational", where=what, got=repr(c)))
                            return fails
                    g = look(p)
                    if g is None:
                        continue
                    ex = self.real.img(g[0], g[1], T)
                    if p[0] != ex[0] or p[1] != ex[1]:
                        if max(ex[0].denominator, ex[1].denominator) <= 10**9:
                            fails.append(Failure(tag, "vertex is not the exact rational point", where=what, grid=g, expected=ex, got=(p[0], p[1])))
                            return fails
        return fails

    def abs_moment(self, a, b, T):
        key = ("abs", a, b, T.m)
        if key not in self._lookups:
            tot = F(0)
            for i, j in self.u.cells:
                if 1 < i < self.u.N and 1 < j < self.u.N:
                    tot += abs(self.real._cell_weight(i, j, a, b, T.m))
            self._lookups[key] = tot
        return self._lookups[key]
