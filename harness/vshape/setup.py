"""bin/setup: SANY on all modules, universe modules, table exports (cached)."""
import os
import subprocess
import sys
import time
from multiprocessing import Pool

from . import models, spectab, tlc
from .universe import CATALOGUE


def _one(name):
    t0 = time.time()
    st = spectab.load(name)
    n = len(models.pair_rows(name)) if st.u.NR <= 256 else 0
    return "%s: %d regions, %d one-step rows, %.0fs" % (name, st.u.NR, n, time.time() - t0)


def main():
    tlc.prepare()
    bad = 0
    for fn in sorted(os.listdir(tlc.SPEC)):
        if fn.endswith(".tla"):
            p = subprocess.run(["tla-sany", fn], cwd=tlc.BSPEC, stdout=subprocess.PIPE, stderr=subprocess.STDOUT, text=True)
            ok = p.returncode == 0 and "error" not in p.stdout.lower().replace("errors: 0", "")
            print("SANY %-22s %s" % (fn, "ok" if ok else "FAILED"))
            if not ok:
                print(p.stdout[-2000:])
                bad += 1
    with Pool(6) as p:
        for line in p.imap_unordered(_one, list(CATALOGUE)):
            print(line)
    sys.exit(1 if bad else 0)


if __name__ == "__main__":
    main()
