"""Parser for the behaviours TLC writes with `-simulate file=...` (one TLA+ module
per behaviour: `\\* <Action(args) line ...>` headers followed by `STATE_n == /\\ v = ...`)
and for TLA+ values in general (records, sequences, sets, strings, ints, booleans).
"""
from __future__ import annotations

import re


class _P:
    def __init__(self, s):
        self.s = s
        self.i = 0

    def ws(self):
        while self.i < len(self.s) and self.s[self.i].isspace():
            self.i += 1

    def peek(self, k=1):
        self.ws()
        return self.s[self.i : self.i + k]

    def eat(self, tok):
        self.ws()
        assert self.s.startswith(tok, self.i), (tok, self.s[self.i : self.i + 30])
        self.i += len(tok)

    def value(self):
        self.ws()
        s = self.s
        if s.startswith("<<", self.i):
            self.i += 2
            out = []
            while self.peek(2) != ">>":
                out.append(self.value())
                if self.peek() == ",":
                    self.i += 1
            self.eat(">>")
            return tuple(out)
        if s.startswith("[", self.i):
            self.i += 1
            rec = {}
            while self.peek() != "]":
                self.ws()
                m = re.compile(r"[A-Za-z_][A-Za-z0-9_]*").match(s, self.i)
                key = m.group(0)
                self.i = m.end()
                self.eat("|->")
                rec[key] = self.value()
                if self.peek() == ",":
                    self.i += 1
            self.eat("]")
            return rec
        if s.startswith("{", self.i):
            self.i += 1
            out = []
            while self.peek() != "}":
                out.append(self.value())
                if self.peek() == ",":
                    self.i += 1
            self.eat("}")
            return frozenset(out)
        if s.startswith('"', self.i):
            j = s.index('"', self.i + 1)
            v = s[self.i + 1 : j]
            self.i = j + 1
            return v
        m = re.compile(r"-?\d+").match(s, self.i)
        if m:
            self.i = m.end()
            # a..b interval
            if s.startswith("..", self.i):
                self.i += 2
                m2 = re.compile(r"-?\d+").match(s, self.i)
                self.i = m2.end()
                return frozenset(range(int(m.group(0)), int(m2.group(0)) + 1))
            return int(m.group(0))
        if s.startswith("TRUE", self.i):
            self.i += 4
            return True
        if s.startswith("FALSE", self.i):
            self.i += 5
            return False
        raise ValueError("cannot parse TLA+ value at: %r" % s[self.i : self.i + 40])


def parse_value(txt):
    p = _P(txt)
    v = p.value()
    p.ws()
    assert p.i == len(p.s), txt[p.i :]
    return v


_HDR = re.compile(r"^\\\* <(\w+)(?:\((.*)\))? line \d+", re.M)


def parse_args(argtxt):
    if not argtxt:
        return ()
    return parse_value("<<" + argtxt + ">>")


def parse_behaviour(text):
    """-> list of (action name, args tuple, state dict)"""
    steps = []
    parts = re.split(r"^(?=\\\* <)", text, flags=re.M)
    for part in parts:
        m = _HDR.match(part)
        if not m:
            continue
        name, argtxt = m.group(1), m.group(2)
        body = part[part.index("==", part.index("STATE_")) + 2 :]
        body = body.split("\n====")[0]
        state = {}
        conj = re.split(r"^/\\ ", body.strip(), flags=re.M)
        for c in conj:
            c = c.strip()
            if not c:
                continue
            var, val = c.split("=", 1)
            state[var.strip()] = parse_value(val.strip())
        steps.append((name, parse_args(argtxt), state))
    return steps


def load_behaviours(directory, prefix="tr"):
    import os

    out = []
    for fn in sorted(os.listdir(directory)):
        if fn.startswith(prefix):
            with open(os.path.join(directory, fn)) as fh:
                out.append((fn, parse_behaviour(fh.read())))
    return out


if __name__ == "__main__":
    import sys

    for fn, b in load_behaviours(sys.argv[1]):
        print(fn)
        for name, args, st in b:
            print("  ", name, args, st.get("regs"), st.get("obs"))
