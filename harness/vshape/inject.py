"""Crash points (C11): raise an exception at the k-th internal call boundary of a
client-level call (sys.monitoring PY_START events of frames whose code lives under
shapepy/), then check that every operand still denotes the region it denoted
before, answers the query battery as before, and that repeating the call without a
fault gives the uninjected answer.  Mutation events on operand objects are recorded
during each run and abstracted to the event alphabet of spec/Calls.tla."""
from __future__ import annotations

import copy as _copy
import os
import sys
import time
import traceback

from . import realise, replay, spectab, world
from .world import Failure, kind_of


class Injected(BaseException):
    pass


TOOL = 3  # sys.monitoring tool id


class Injector:
    def __init__(self, srcdir):
        self.srcdir = os.path.abspath(srcdir)
        self.count = 0
        self.target = None
        self.exc = Injected
        self.active = False
        self.where = None

    def _cb(self, code, offset):
        if not self.active:
            return None
        if not code.co_filename.startswith(self.srcdir):
            return sys.monitoring.DISABLE
        self.count += 1
        if self.target is not None and self.count == self.target:
            self.where = "%s:%s" % (os.path.basename(code.co_filename), code.co_name)
            self.active = False
            raise self.exc()
        return None

    def __enter__(self):
        mon = sys.monitoring
        try:
            mon.use_tool_id(TOOL, "verif-inject")
        except ValueError:
            mon.free_tool_id(TOOL)
            mon.use_tool_id(TOOL, "verif-inject")
        mon.register_callback(TOOL, mon.events.PY_START, self._cb)
        mon.set_events(TOOL, mon.events.PY_START)
        return self

    def __exit__(self, *a):
        mon = sys.monitoring
        mon.set_events(TOOL, 0)
        mon.register_callback(TOOL, mon.events.PY_START, None)
        mon.free_tool_id(TOOL)
        return False

    def run(self, fn, target=None, exc=Injected):
        """-> (outcome, value, events counted)"""
        self.count = 0
        self.target = target
        self.exc = exc
        self.where = None
        sys.monitoring.restart_events()
        self.active = True
        try:
            v = fn()
            return ("returned", v, self.count)
        except exc:
            return ("injected", None, self.count)
        except BaseException as ex:  # noqa  (e.g. SystemError from numpy object loops)
            return ("raised:" + type(ex).__name__, None, self.count)
        finally:
            self.active = False


class MutationRecorder:
    """wraps (from outside the package) the methods that change curves in place and logs
    those that hit an OPERAND object of the current client-level call"""

    def __init__(self, sp):
        self.sp = sp
        self.log = []
        self.sideof = {}
        self.cnt = {"A": 0, "B": 0}
        self._orig = {}

    def set_operands(self, objs):
        self.log = []
        self.cnt = {"A": 0, "B": 0}
        self.sideof = {}
        for side, o in zip("AB", objs):
            if kind_of(o) in "SCD":
                self.sideof[id(o)] = (side, 0)
                for j in o.jordans:
                    self.sideof.setdefault(id(j), (side, 0))
                if hasattr(o, "subshapes"):
                    for k, sub in enumerate(o.subshapes):
                        self.sideof.setdefault(id(sub), (side, k + 1))

    def __enter__(self):
        JC, SS = self.sp.JordanCurve, self.sp.SimpleShape
        rec = self

        def wrap(cls, name, ev):
            orig = getattr(cls, name)
            self._orig[(cls, name)] = orig

            def wrapper(self_, *a, **kw):
                hit = rec.sideof.get(id(self_))
                if hit is not None:
                    if ev == "split":
                        rec.cnt[hit[0]] += 1
                        rec.log.append(["split", hit[0], rec.cnt[hit[0]]])
                    else:
                        rec.log.append(["invert", hit[1]])
                return orig(self_, *a, **kw)

            setattr(cls, name, wrapper)

        wrap(JC, "split", "split")
        wrap(JC, "invert", "invert")
        wrap(SS, "invert", "invert")
        return self

    def __exit__(self, *a):
        for (cls, name), orig in self._orig.items():
            setattr(cls, name, orig)
        return False


def call_kind(cname):
    op = cname.split(":")[0]
    return {"or": "binop", "and": "binop", "sub": "sub", "xor": "xor", "in": "contains"}.get(op, "query")


# ---------------------------------------------------------------------------
# the calls that are exercised: name -> (builder of operands from a World, call)
# ---------------------------------------------------------------------------

def _cases(st):
    """(name, [operand regions], call(objs), events abstraction)"""
    u = st.u
    pf = [r for r in range(1, u.full) if not st.pinch(r)]
    simple = [r for r in pf if st.kind(r) == "S"]
    conn = [r for r in pf if st.kind(r) == "C"]
    disj = [r for r in pf if st.kind(r) == "D"]
    cases = []
    # operators on crossing operands (path following runs)
    cross = [(a, b) for a in pf for b in pf if a < b and st.cls(a, b) == "T" and st.cross(a, b)]
    for (a, b) in cross[:6]:
        for op in ("or", "and", "sub", "xor"):
            cases.append(("%s:%d:%d" % (op, a, b), [a, b], (lambda o, op=op: replay.OPFUN[op](o[0], o[1]))))
    # containment of every kind in every kind
    pairs = []
    for ka in (simple, conn, disj):
        for kb in (simple, conn, disj):
            cand = [(a, b) for a in ka[:6] for b in kb[:6] if a != b and st.cls(a, b) == "T"]
            pairs += cand[:2]
    for (a, b) in pairs:
        cases.append(("in:%d:%d" % (a, b), [a, b], (lambda o: o[1] in o[0])))
        cases.append(("eq:%d:%d" % (a, b), [a, b], (lambda o: o[0] == o[1])))
    for a in (simple[:2] + conn[:2] + disj[:2]):
        cases.append(("float:%d" % a, [a], (lambda o: float(o[0]))))
        cases.append(("moment:%d" % a, [a], (lambda o: world.shapepy().IntegrateShape.polynomial(o[0], 1, 1))))
        cases.append(("deepcopy:%d" % a, [a], (lambda o: _copy.deepcopy(o[0]))))
        cases.append(("inv:%d" % a, [a], (lambda o: ~o[0])))
        cases.append(("point:%d" % a, [a], (lambda o: (0.123, 0.456) in o[0])))
        cases.append(("eqself:%d" % a, [a, a], (lambda o: o[0] == o[1])))
    return cases


def case_names(uname):
    st = replay._tables(uname)
    return [c[0] for c in _cases(st)]


def inject_case(job):
    """job = (universe, realisation, case name, list of k or None (= count only), options)"""
    uname, rname, cname, ks, opts = job
    t0 = time.time()
    try:
        st = replay._tables(uname)
        real = realise.by_name(st.u, rname)
        w = world.World(st, real)
        sp = w.sp
        case = [c for c in _cases(st) if c[0] == cname][0]
        _, regs_, call = case
        srcdir = os.path.dirname(sp.__file__)
        fails = []
        runs = 0
        rp = replay.Replayer(st, real, check_c10=False)

        def fresh():
            objs = []
            for r in regs_:
                if objs and r == regs_[0] and len(regs_) == 2 and cname.startswith("eqself"):
                    objs.append(objs[0])
                else:
                    objs.append(w.canonical(r))
            return objs

        def normal(v):
            if isinstance(v, (bool, int, float)) or v is None:
                return v
            if hasattr(v, "jordans") or kind_of(v) in "EW":
                return ("shape", w.project_region(v)[0] if kind_of(v) in "SCD" else kind_of(v))
            try:
                return float(v)
            except Exception:
                return repr(type(v))

        traces = []

        def note(outcome):
            # SimpleShape.invert delegates to JordanCurve.invert: one abstract event
            lg = []
            for e in mrec.log:
                if e[0] == "invert" and lg and lg[-1] == e:
                    continue
                lg.append(e)
            traces.append({"kind": call_kind(cname), "outcome": "returned" if outcome == "returned" else "raised", "log": lg})

        with Injector(srcdir) as inj, MutationRecorder(sp) as mrec:
            objs = fresh()
            mrec.set_operands(objs)
            out0, v0, n0 = inj.run(lambda: call(objs))
            note(out0)
            base = normal(v0)
            if ks is None:
                return {"universe": uname, "real": rname, "case": cname, "events": n0, "outcome": out0, "fails": [], "wall": time.time() - t0, "steps": [], "stats": {}, "traces": traces}
            for k in ks:
                if k > n0:
                    continue
                for exc in ((Injected, KeyboardInterrupt) if opts.get("kbd") and k % 7 == 0 else (Injected,)):
                    objs = fresh()
                    if opts.get("warm"):
                        for o in objs:
                            float(o)
                    snaps = [w.snapshot(o) for o in objs]
                    mrec.set_operands(objs)
                    out, _, n = inj.run(lambda: call(objs), target=k, exc=exc)
                    runs += 1
                    if out != "returned":
                        note(out)
                    mrec.sideof = {}
                    if out not in ("injected",) and not out.startswith("raised"):
                        continue  # the k-th boundary was not reached on this path
                    where = inj.where
                    # every operand still denotes its region and answers as before
                    for o, r, s in zip(objs, regs_, snaps):
                        rec = {"reg": r, "frame": (), "splits": (), "segk": False}
                        ff = w.compare(o, rec, what="operand after fault at %s (k=%d)" % (where, k), deep=True,
                                       tags={"region": "C11", "kind": "C11", "loops": "C11", "moment": "C11", "vertices": "C11"})
                        if not ff:
                            try:
                                b1 = rp.battery(o, ())
                                b2 = rp.battery(w.canonical(r), ())
                                for key in b1:
                                    if key not in ("len",) and not replay._close(b1[key], b2[key]):
                                        ff.append(Failure("C11", "operand answers differently after the fault", query=key, got=b1[key], expected=b2[key], k=k, where=where))
                                # orientation of every curve must be the one the region demands
                                if any((float(j) > 0) != (w.sp.IntegrateJordan.area(j) > 0) for j in o.jordans):
                                    ff.append(Failure("C11", "cached orientation of a curve disagrees with its geometry after the fault", k=k, where=where))
                            except BaseException as ex:  # noqa
                                ff.append(Failure("C11", "operand unusable after the fault", exc=repr(ex), k=k, where=where))
                        for f in ff:
                            f.detail.update(k=k, where=where, exc_type=exc.__name__)
                            fails.append(f)
                    if not fails:
                        # the same call, repeated without a fault, gives the uninjected answer
                        out2, v2, _ = inj.run(lambda: call(objs))
                        if out2 != out0 or not replay._close(normal(v2), base) and normal(v2) != base:
                            fails.append(Failure("C11", "repeating the call after the fault gives a different answer", k=k, where=where, first=base, second=normal(v2), outcome=out2))
                    if len(fails) > 4:
                        break
                if len(fails) > 4:
                    break
        return {"universe": uname, "real": rname, "case": cname, "events": n0, "outcome": out0, "row": None,
                "fails": [f.as_dict() if isinstance(f, Failure) else f for f in fails], "wall": time.time() - t0,
                "steps": [["CallBegin", cname], ["Interrupt@k", list(ks)[:8]], ["CallRaise"], ["Recheck"]], "stats": {"runs": runs}, "traces": traces}
    except BaseException:  # noqa
        return {"universe": uname, "real": rname, "case": cname, "machinery": traceback.format_exc(), "fails": [], "stats": {}, "wall": time.time() - t0}
