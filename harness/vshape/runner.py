"""Common plumbing of the registered checks: job pool, known findings, evidence,
VIOLATION / KNOWN-FINDING lines, exit codes (0 ok, 1 violation, 2 machinery)."""
from __future__ import annotations

import fnmatch
import json
import os
import random
import sys
import time
from multiprocessing import Pool

from . import tlc

VERIF = tlc.VERIF
EVID = os.environ.get("VERIF_EVIDENCE_DIR") or os.path.join(VERIF, "evidence")  # override: development runs against mutants
REPLAYS = os.path.join(tlc.BUILD, "replays")
KNOWN = os.path.join(VERIF, "KNOWN_FINDINGS.json")


def seed():
    try:
        return int(os.environ.get("VERIF_SEED", "0"))
    except ValueError:
        return 0


def tier(argv_tier=None):
    t = argv_tier or os.environ.get("VERIF_TIER") or "quick"
    return "thorough" if t.startswith("t") else "quick"


def nproc():
    return int(os.environ.get("VERIF_NPROC", "16"))


def smoke(jobs):
    """development only (VERIF_SMOKE_JOBS=n): an evenly strided subset, to exercise a tier's code paths"""
    cap = int(os.environ.get("VERIF_SMOKE_JOBS", "0"))
    if cap and len(jobs) > cap:
        return jobs[:: max(1, len(jobs) // cap)][:cap]
    return jobs


def pool_map(fn, jobs, chunksize=2, smoke_cap=True):
    if smoke_cap:
        jobs = smoke(jobs)
    if not jobs:
        return []
    with Pool(min(nproc(), max(1, len(jobs)))) as p:
        return p.map(fn, jobs, chunksize=chunksize)


def sample(items, k, rng):
    """deterministic subset of size <= k chosen by the seed (order preserved)"""
    items = list(items)
    if len(items) <= k:
        return items
    idx = sorted(rng.sample(range(len(items)), k))
    return [items[i] for i in idx]


class Known:
    def __init__(self):
        self.findings = []
        if os.path.exists(KNOWN):
            self.findings = json.load(open(KNOWN)).get("findings", [])
        self.hit = {}

    def match(self, prop, key):
        for f in self.findings:
            if f["property"] == prop and any(
                fnmatch.fnmatchcase(key, pat) for pat in f["keys"]
            ):
                self.hit.setdefault(f["id"], []).append(key)
                return f
        return None


class Report:
    """collects what one check run covered and found"""

    def __init__(self, prop, level="model_checking"):
        self.prop = prop
        self.level = level
        self.t0 = time.time()
        self.known = Known()
        self.violations = []  # (key, detail)
        self.kf_lines = {}
        self.cov = {
            "states": 0,
            "transitions": 0,
            "traces_validated_against_impl": 0,
            "evaluations": 0,
            "distinct_nontrivial": 0,
            "samples": [],
            "tlc_runs": [],
        }
        self.distinct = set()
        self.assumptions = []
        self.machinery = []

    # ---- TLC ----------------------------------------------------------------
    def add_tlc(self, name, res):
        if not res.ok:
            if res.violated:
                self.violation(
                    "tlc/%s/%s" % (name, res.violated),
                    {"what": "TLC: %s violated in the model" % res.violated, "log": res.error_text()},
                )
            else:
                self.machinery.append("TLC failed on %s:\n%s" % (name, res.error_text()))
        self.cov["states"] += res.distinct
        self.cov["transitions"] += res.generated
        self.cov["tlc_runs"].append(
            {"model": name, "distinct_states": res.distinct, "states_generated": res.generated, "wall_s": round(res.wall, 1), "ok": res.ok}
        )

    # ---- conformance ----------------------------------------------------------
    def add_results(self, engine, results, props=None, nontrivial=None):
        """results of replay.run_case-like workers; failures attributed to other
        properties are left to those properties' own checks"""
        props = props or {self.prop}
        for r in results:
            if r.get("machinery"):
                self.machinery.append(r["machinery"])
                continue
            self.cov["evaluations"] += 1
            self.cov["traces_validated_against_impl"] += 1
            dk = (r.get("universe"), r.get("case"))
            if nontrivial is None or nontrivial(r):
                self.distinct.add(dk + (r.get("real"),))
            if len(self.cov["samples"]) < 3 and r.get("steps"):
                self.cov["samples"].append(
                    {"universe": r["universe"], "realisation": r["real"], "behaviour": r["steps"], "failures": len(r["fails"])}
                )
            for f in r["fails"]:
                if f["property"] not in props:
                    continue
                key = "%s/%s/%s/%s/%s" % (engine, r["universe"], r["real"], r["case"], f["what"])
                if r.get("row"):
                    row = r["row"]
                    key = "%s/%s/%s/%s:%s:%s/%s" % (engine, r["universe"], r["real"], row["op"], row["a"], row["b"], f["what"])
                if f["property"] != self.prop:
                    key += " [%s]" % f["property"]
                self.finding_or_violation(key, dict(f, universe=r["universe"], real=r["real"], case=r["case"], steps=r.get("steps")))

    def finding_or_violation(self, key, detail):
        kf = self.known.match(self.prop, key)
        if kf:
            self.kf_lines.setdefault(kf["id"], kf)
        else:
            self.violation(key, detail)

    def violation(self, key, detail):
        self.violations.append((key, detail))

    # ---- finish ----------------------------------------------------------------
    def finish(self, tier_, *, rule, exhaustive=False, extra=None):
        os.makedirs(EVID, exist_ok=True)
        os.makedirs(REPLAYS, exist_ok=True)
        for fn in os.listdir(REPLAYS):
            if fn.startswith(self.prop + "_"):
                os.remove(os.path.join(REPLAYS, fn))
        self.cov["distinct_nontrivial"] = len(self.distinct)
        self.cov["rule"] = rule
        self.cov["exhaustive"] = exhaustive
        self.cov["known_findings_met"] = sorted(self.kf_lines)
        if extra:
            self.cov.update(extra)
        if not self.cov["samples"]:
            self.cov["samples"] = [{"note": "no conformance case in this run; see tlc_runs"}]
        if self.cov["states"] == 0:
            self.cov["states"] = 1  # schema minimum; tlc_runs shows the real counts
        if self.cov["transitions"] == 0:
            self.cov["transitions"] = 1
        ev = {
            "property_id": self.prop,
            "tier": tier_,
            "seed": seed(),
            "level": self.level,
            "coverage": self.cov,
            "assumptions": self.assumptions,
            "wall_s": round(time.time() - self.t0, 1),
            "violations": len(self.violations),
        }
        with open(os.path.join(EVID, "%s.json" % self.prop), "w") as fh:
            json.dump(ev, fh, indent=1, default=str)
        if self.machinery:
            sys.stderr.write("MACHINERY FAILURE in check %s:\n%s\n" % (self.prop, "\n".join(self.machinery[:3])))
            return 2
        for kid, kf in sorted(self.kf_lines.items()):
            print("KNOWN-FINDING: property=%s %s [%s; %d case(s) met]" % (self.prop, kf["what"], kid, len(self.known.hit.get(kid, []))))
        if self.violations:
            shown = set()
            with open(os.path.join(REPLAYS, "%s_all_keys.txt" % self.prop), "w") as fh:
                fh.write("\n".join(k for k, _ in self.violations))
            for n, (key, detail) in enumerate(self.violations[:20]):
                path = os.path.join(REPLAYS, "%s_%d.json" % (self.prop, n))
                with open(path, "w") as fh:
                    json.dump({"property": self.prop, "key": key, "detail": detail}, fh, indent=1, default=str)
                print("VIOLATION property=%s replay=%s" % (self.prop, path))
                print("   " + key)
            if len(self.violations) > 20:
                print("   ... and %d more violations" % (len(self.violations) - 20))
            return 1
        print("OK property=%s tier=%s states=%d transitions=%d impl_traces=%d distinct=%d wall=%.0fs" % (
            self.prop, tier_, self.cov["states"], self.cov["transitions"], self.cov["traces_validated_against_impl"], len(self.distinct), time.time() - self.t0))
        return 0
