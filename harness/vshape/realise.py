"""Realisations: exact maps from the abstract grid universe to concrete coordinates.

rho = (xs, ys, numeric type, Phi = L2 o Shear_p o L1, frame T) where
Shear_p(x, y) = (x + p(y), y) with a polynomial p of degree 0, 2 or 3 and L1, L2
affine with rational coefficients.  Phi is a polynomial automorphism of the plane
with constant Jacobian determinant: the image of a straight edge is EXACTLY a
Bezier segment of degree deg(p) with the same parametrisation, classification of
points happens in the rational pre-image, and area moments are exact polynomial
integrals over the cells.  (DESIGN.md section 4.2)
"""
from __future__ import annotations

import math
from fractions import Fraction as F
from functools import lru_cache

# --------------------------------------------------------------- polynomials


class BiPoly:
    """polynomial in X, Y with Fraction coefficients: {(p, q): c}"""

    __slots__ = ("c",)

    def __init__(self, c=None):
        self.c = {k: F(v) for k, v in (c or {}).items() if v != 0}

    @staticmethod
    def const(v):
        return BiPoly({(0, 0): v})

    @staticmethod
    def X():
        return BiPoly({(1, 0): 1})

    @staticmethod
    def Y():
        return BiPoly({(0, 1): 1})

    def __add__(self, o):
        if not isinstance(o, BiPoly):
            o = BiPoly.const(o)
        r = dict(self.c)
        for k, v in o.c.items():
            r[k] = r.get(k, 0) + v
        return BiPoly(r)

    __radd__ = __add__

    def __mul__(self, o):
        if not isinstance(o, BiPoly):
            return BiPoly({k: v * o for k, v in self.c.items()})
        r = {}
        for (p1, q1), v1 in self.c.items():
            for (p2, q2), v2 in o.c.items():
                k = (p1 + p2, q1 + q2)
                r[k] = r.get(k, 0) + v1 * v2
        return BiPoly(r)

    __rmul__ = __mul__

    def __pow__(self, n):
        r = BiPoly.const(1)
        for _ in range(n):
            r = r * self
        return r

    def compose_y(self, coeffs):
        """sum_k coeffs[k] * self^k"""
        r = BiPoly()
        pw = BiPoly.const(1)
        for c in coeffs:
            r = r + pw * c
            pw = pw * self
        return r

    def __call__(self, x, y):
        return sum(v * x**p * y**q for (p, q), v in self.c.items())

    def integrate_rect(self, x0, x1, y0, y1):
        tot = F(0)
        for (p, q), v in self.c.items():
            tot += (
                v
                * (x1 ** (p + 1) - x0 ** (p + 1))
                / (p + 1)
                * (y1 ** (q + 1) - y0 ** (q + 1))
                / (q + 1)
            )
        return tot


class Affine:
    """(x, y) -> (a x + b y + c, d x + e y + f), rational"""

    def __init__(self, a=1, b=0, c=0, d=0, e=1, f=0):
        self.m = tuple(F(v) for v in (a, b, c, d, e, f))

    def __call__(self, x, y):
        a, b, c, d, e, f = self.m
        return (a * x + b * y + c, d * x + e * y + f)

    def det(self):
        a, b, c, d, e, f = self.m
        return a * e - b * d

    def then(self, other):
        """other o self"""
        a, b, c, d, e, f = self.m
        A, B, C, D, E, FF = other.m
        return Affine(
            A * a + B * d,
            A * b + B * e,
            A * c + B * f + C,
            D * a + E * d,
            D * b + E * e,
            D * c + E * f + FF,
        )

    def inverse(self):
        a, b, c, d, e, f = self.m
        dt = self.det()
        ia, ib, id_, ie = e / dt, -b / dt, -d / dt, a / dt
        return Affine(ia, ib, -(ia * c + ib * f), id_, ie, -(id_ * c + ie * f))

    def is_identity(self):
        return self.m == (1, 0, 0, 0, 1, 0)


ROT345 = Affine(F(4, 5), F(-3, 5), 0, F(3, 5), F(4, 5), 0)  # rational rotation


# abstract transformation generators -> (method name, args by numeric type, exact map)
def gen_table(numtype):
    half = F(1, 2) if numtype in ("frac", "int", "mixed") else 0.5
    third = F(1, 3) if numtype in ("frac", "int", "mixed") else 1.0 / 3.0
    return {
        "m1": ("move", (3, -2), Affine(1, 0, 3, 0, 1, -2)),
        "M1": ("move", (-3, 2), Affine(1, 0, -3, 0, 1, 2)),
        "m2": ("move", (half, 7), Affine(1, 0, F(1, 2), 0, 1, 7)),
        "M2": ("move", (-half, -7), Affine(1, 0, F(-1, 2), 0, 1, -7)),
        "s1": ("scale", (2, 2), Affine(2, 0, 0, 0, 2, 0)),
        "S1": ("scale", (half, half), Affine(F(1, 2), 0, 0, 0, F(1, 2), 0)),
        "s2": ("scale", (3, half), Affine(3, 0, 0, 0, F(1, 2), 0)),
        "S2": ("scale", (third, 2), Affine(F(1, 3), 0, 0, 0, 2, 0)),
        "r1": ("rotate", (90, True), Affine(0, -1, 0, 1, 0, 0)),
        "R1": ("rotate", (-90, True), Affine(0, 1, 0, -1, 0, 0)),
        "f1": ("move", (1000, 2000), Affine(1, 0, 1000, 0, 1, 2000)),
        "F1": ("move", (-1000, -2000), Affine(1, 0, -1000, 0, 1, -2000)),
        "r2": ("rotate", (math.atan2(3, 4),), ROT345),
        "R2": ("rotate", (-math.atan2(3, 4),), ROT345.inverse()),
    }


EXACT_GENS = {"m1", "M1", "m2", "M2", "s1", "S1", "s2", "S2", "f1", "F1"}


def frame_affine(word, numtype="frac"):
    t = Affine()
    tab = gen_table(numtype)
    for g in word:
        t = t.then(tab[g][2])
    return t


# --------------------------------------------------------------- realisation


class Real:
    def __init__(
        self,
        uni,
        *,
        name="id",
        numtype="frac",
        xs=None,
        ys=None,
        L1=None,
        shear=(),
        L2=None,
        ctor="polygon",
        rot=0,
        post=None,
    ):
        self._kw = dict(name=name, numtype=numtype, xs=xs, ys=ys, L1=L1, shear=shear, L2=L2, ctor=ctor, rot=rot, post=post)
        self.u = uni
        self.name = name
        self.numtype = numtype
        self.xs = [F(v) for v in (xs or uni.XS)]
        self.ys = [F(v) for v in (ys or uni.YS)]
        self.L1 = L1 or Affine()
        self.shear = tuple(F(c) for c in shear)  # p(y) = sum shear[k] y^k
        self.L2 = L2 or Affine()
        self.post = post or Affine()  # similarity applied when building atoms (C12)
        self.ctor = ctor
        self.rot = rot
        self.deg = max([k for k, c in enumerate(self.shear) if c != 0] + [1])
        self._mix = 0
        # Phi as a pair of bivariate polynomials of the coordinates (X, Y)
        a, b, c, d, e, f = self.L1.m
        u = BiPoly.X() * a + BiPoly.Y() * b + c
        v = BiPoly.X() * d + BiPoly.Y() * e + f
        u2 = u + v.compose_y(self.shear) if self.shear else u
        A, B, C, D, E, FF = self.L2.then(self.post).m
        self.px = u2 * A + v * B + C
        self.py = u2 * D + v * E + FF
        self.det0 = self.L1.det() * self.L2.det() * self.post.det()
        assert self.det0 > 0
        xs_, ys_ = self.xs, self.ys
        self.size = float(max(xs_[-1] - xs_[0], ys_[-1] - ys_[0])) * float(
            abs(self.det0)
        ) ** 0.5

    def clone(self, **over):
        kw = dict(self._kw)
        kw.update(over)
        return Real(self.u, **kw)

    # ---- maps -----------------------------------------------------------
    def coord(self, gi, gj):
        """grid-index space (possibly fractional / outside) -> coordinate space"""
        return (_interp(self.xs, F(gi)), _interp(self.ys, F(gj)))

    def img(self, gi, gj, T=None):
        """exact image of a point of grid-index space; T = frame (Affine)"""
        X, Y = self.coord(gi, gj)
        x, y = self.px(X, Y), self.py(X, Y)
        if T is not None:
            x, y = T(x, y)
        return (x, y)

    def num(self, v):
        """rational -> the numeric type of this realisation"""
        t = self.numtype
        if t == "frac":
            return F(v)
        if t == "float":
            return float(v)
        if t == "int":
            assert F(v).denominator == 1, v
            return int(v)
        if t == "mixed":
            self._mix += 1
            k = self._mix % 3
            if k == 0:
                return float(v)
            if k == 1 and F(v).denominator == 1:
                return int(v)
            return F(v)
        raise ValueError(t)

    def npt(self, p):
        return (self.num(p[0]), self.num(p[1]))

    # ---- curves -----------------------------------------------------------
    def edge_ctrl(self, P, Q, T=None):
        """exact Bezier control points of the image of the straight edge P -> Q
        (grid points); degree = deg(p) unless the edge is invariant under the shear"""
        X0, Y0 = self.coord(*P)
        X1, Y1 = self.coord(*Q)
        deg = self.deg
        # sample the polynomial curve at deg+1 parameters and convert to Bernstein
        ts = [F(k, deg) for k in range(deg + 1)]
        pts = []
        for t in ts:
            X, Y = X0 + t * (X1 - X0), Y0 + t * (Y1 - Y0)
            x, y = self.px(X, Y), self.py(X, Y)
            if T is not None:
                x, y = T(x, y)
            pts.append((x, y))
        ctrl = _interp_to_bernstein(pts, deg)
        # drop to degree 1 when the image is a straight, linearly parametrised segment
        if deg > 1 and all(
            ctrl[k][0] == ctrl[0][0] + F(k, deg) * (ctrl[deg][0] - ctrl[0][0])
            and ctrl[k][1] == ctrl[0][1] + F(k, deg) * (ctrl[deg][1] - ctrl[0][1])
            for k in range(deg + 1)
        ):
            ctrl = [ctrl[0], ctrl[deg]]
        return ctrl

    def loop_ctrl(self, loop, rot=None, T=None):
        """list of control-point lists, one per edge of the corner cycle"""
        rot = self.rot if rot is None else rot
        n = len(loop)
        loop = [loop[(k + rot) % n] for k in range(n)]
        return [self.edge_ctrl(loop[k], loop[(k + 1) % n], T) for k in range(n)]

    # ---- moments ----------------------------------------------------------
    @lru_cache(maxsize=None)
    def _cell_weight(self, i, j, a, b, Tm):
        T = Affine(*Tm)
        A, B, C, D, E, FF = T.m
        px = self.px * A + self.py * B + C
        py = self.px * D + self.py * E + FF
        integrand = (px**a) * (py**b) * (self.det0 * T.det())
        return integrand.integrate_rect(
            self.xs[i - 1], self.xs[i], self.ys[j - 1], self.ys[j]
        )

    def moment(self, reg, a, b, T=None):
        """exact integral of x^a y^b over the image of region reg (documented
        convention: unbounded regions count minus their bounded complement)"""
        T = T or Affine()
        u = self.u
        if u.unbounded(reg):
            return -self.moment(u.full ^ reg, a, b, T)
        return sum(
            (self._cell_weight(i, j, a, b, T.m) for (i, j) in u.cells_of(reg)),
            F(0),
        )

    # ---- witnesses ----------------------------------------------------------
    def witnesses(self, level=1, delta=F(1, 50)):
        """list of (kind, key, (gi, gj)):
        'c' cell centre, 'e' inside a cell close to a side, 'k' inside a cell close to
        a corner (key = cell); 'f' far point (key = None, lies in the outer face);
        'b' point on a unit edge (key = the edge as a pair of grid points);
        'v' grid vertex (key = the point)"""
        N = self.u.N
        out = []
        h = F(1, 2)
        for i, j in self.u.cells:
            out.append(("c", (i, j), (i - h, j - h)))
            if level >= 1:
                out.append(("e", (i, j), (i - 1 + delta, j - h)))
                out.append(("e", (i, j), (i - delta, j - h + delta)))
                out.append(("e", (i, j), (i - h, j - 1 + delta)))
                out.append(("e", (i, j), (i - h - delta, j - delta)))
            if level >= 2:
                for di, dj in ((delta, delta), (1 - delta, delta), (delta, 1 - delta), (1 - delta, 1 - delta)):
                    out.append(("k", (i, j), (i - 1 + di, j - 1 + dj)))
                d2 = delta / 20
                out.append(("e", (i, j), (i - 1 + d2, j - F(1, 3))))
                out.append(("e", (i, j), (i - F(2, 3), j - d2)))
        if level >= 1:
            for gi, gj in ((-10 * N, h), (11 * N, N - h), (h, -10 * N), (N - h, 11 * N), (-1000 * N, -1000 * N), (10**4 * N, 3)):
                out.append(("f", None, (F(gi), F(gj))))
        return out

    def boundary_witnesses(self):
        """points on unit edges and grid vertices"""
        N = self.u.N
        out = []
        for i in range(N + 1):
            for j in range(N + 1):
                out.append(("v", (i, j), (F(i), F(j))))
                if i < N:
                    e = ((i, j), (i + 1, j))
                    out.append(("b", e, (i + F(1, 2), F(j))))
                    out.append(("b", e, (i + F(1, 3), F(j))))
                if j < N:
                    e = ((i, j), (i, j + 1))
                    out.append(("b", e, (F(i), j + F(1, 2))))
                    out.append(("b", e, (F(i), j + F(2, 3))))
        return out

    # ---- inverse lookup -------------------------------------------------------
    def grid_lookup(self, T=None):
        """function mapping a concrete point to the grid point whose image it is
        (None when there is none within tolerance)"""
        N = self.u.N
        table = {}
        tol = 1e-7 * max(1.0, self.size) * (abs(float((T or Affine()).det())) ** 0.5 if T else 1.0)
        tol = max(tol, 1e-9)
        pts = []
        for i in range(N + 1):
            for j in range(N + 1):
                x, y = self.img(i, j, T)
                pts.append((float(x), float(y), (i, j)))

        def look(p):
            px, py = float(p[0]), float(p[1])
            best = None
            for x, y, g in pts:
                d = abs(x - px) + abs(y - py)
                if best is None or d < best[0]:
                    best = (d, g)
            return best[1] if best[0] <= tol * 10 else None

        return look


def _interp(cs, g):
    """piecewise-linear map grid index -> coordinate, linear extrapolation outside"""
    n = len(cs) - 1
    if g <= 0:
        return cs[0] + g * (cs[1] - cs[0])
    if g >= n:
        return cs[n] + (g - n) * (cs[n] - cs[n - 1])
    k = int(g)  # floor for g >= 0
    if k == g:
        return cs[k]
    return cs[k] + (g - k) * (cs[k + 1] - cs[k])


def _interp_to_bernstein(pts, deg):
    """control points of the degree-`deg` Bezier curve through pts at t = k/deg"""
    if deg == 1:
        return [pts[0], pts[1]]
    # solve the (deg+1)x(deg+1) collocation system exactly
    n = deg
    ts = [F(k, n) for k in range(n + 1)]
    M = [
        [F(math.comb(n, i)) * (1 - t) ** (n - i) * t**i for i in range(n + 1)]
        for t in ts
    ]
    out = []
    for dim in (0, 1):
        rhs = [p[dim] for p in pts]
        out.append(_solve(M, rhs))
    return [(out[0][k], out[1][k]) for k in range(n + 1)]


def _solve(M, rhs):
    n = len(rhs)
    A = [list(row) + [rhs[k]] for k, row in enumerate(M)]
    for c in range(n):
        piv = next(r for r in range(c, n) if A[r][c] != 0)
        A[c], A[piv] = A[piv], A[c]
        pv = A[c][c]
        A[c] = [v / pv for v in A[c]]
        for r in range(n):
            if r != c and A[r][c] != 0:
                f = A[r][c]
                A[r] = [vr - f * vc for vr, vc in zip(A[r], A[c])]
    return [A[k][n] for k in range(n)]


# ------------------------------------------------------------ standard catalogue


def catalogue(uni, which="quick"):
    """named realisations of a universe"""
    out = [
        Real(uni, name="poly-frac", numtype="frac", ctor="polygon"),
        Real(uni, name="poly-int", numtype="int", ctor="vertices", rot=1),
        Real(uni, name="poly-float", numtype="float", ctor="ctrlpoints", rot=2,
             L2=Affine(F(13, 10), F(1, 5), F(3, 7), F(-1, 10), F(11, 10), F(-2, 3))),
        Real(uni, name="quad-float", numtype="float", ctor="ctrlpoints",
             L1=ROT345, shear=(0, 0, F(1, 40))),
        Real(uni, name="mixdeg-float", numtype="float", ctor="segments", rot=1,
             shear=(0, 0, F(1, 30))),
        Real(uni, name="cubic-float", numtype="float", ctor="ctrlpoints",
             L1=ROT345, shear=(0, 0, F(1, 60), F(1, 50))),
    ]
    # C13: rational coordinates with denominators up to ~10^4 (derived values stay < 10^9)
    out.append(Real(uni, name="poly-frac-dense", numtype="frac", ctor="vertices", rot=1,
                    L2=Affine(F(101, 97), F(7, 53), F(1234, 567), F(-11, 89), F(103, 101), F(-987, 654))))
    # C13/C14: numerators ~1e10 over the prime 999999937 < 1e9: coordinates are stored unchanged,
    # crossing parameters have denominators far above 1e9
    D = 999999937
    N_ = uni.N
    bx = [F((k - N_ // 2) * 10**10 + 1234567 * (k * k % 7 + 1) + 89 * k, D) for k in range(N_ + 1)]
    by = [F((k - N_ // 2) * 10**10 + 7654321 * (k * k % 5 + 1) + 97 * k, D) for k in range(N_ + 1)]
    out.append(Real(uni, name="poly-frac-big", numtype="frac", ctor="vertices", rot=2, xs=bx, ys=by))
    # C12/C06: a drawing of about one millimetre given in metres (the universe is ~15 units wide)
    out.append(Real(uni, name="sim-mmu-float", numtype="float", ctor="ctrlpoints", post=Affine(F(1, 15000), 0, 0, 0, F(1, 15000), 0)))
    out.append(Real(uni, name="sim-mmu-frac", numtype="frac", ctor="vertices", post=Affine(F(1, 15000), 0, 0, 0, F(1, 15000), 0)))
    # C12: the same drawing in other units / places / orientations
    for nm, sc, tx, ty, rot in (("mm", F(1, 1000), 0, 0, None), ("cm", F(1, 100), F(1, 3), 0, None), ("x20", 20, 0, 0, None),
                                ("km", 10**5, 0, 0, None), ("far3", 1, 1000, -2000, None), ("far6", 1, 10**6, 10**6, None),
                                ("rot345", 1, 0, 0, ROT345), ("rot90far", 1, 500, 500, Affine(0, -1, 0, 1, 0, 0))):
        post = Affine(sc, 0, tx, 0, sc, ty)
        if rot is not None:
            post = rot.then(post)
        out.append(Real(uni, name="sim-%s-float" % nm, numtype="float", ctor="ctrlpoints", post=post))
        out.append(Real(uni, name="sim-%s-frac" % nm, numtype="frac", ctor="vertices", post=post))
        out.append(Real(uni, name="sim-%s-quad" % nm, numtype="float", ctor="ctrlpoints", L1=ROT345, shear=(0, 0, F(1, 40)), post=post))
    if which != "quick":
        out += [
            Real(uni, name="poly-mixed", numtype="mixed", ctor="vertices", rot=3),
            Real(uni, name="poly-frac-rot", numtype="frac", ctor="vertices", L2=ROT345.then(Affine(1, 0, F(5, 3), 0, 1, F(-7, 4)))),
            Real(uni, name="quad-frac", numtype="frac", ctor="ctrlpoints", L1=ROT345, shear=(0, 0, F(1, 40))),
        ]
    return out


_BYNAME = {}


def by_name(uni, name):
    key = (uni.name, name)
    if key not in _BYNAME:
        for r in catalogue(uni, "all"):
            _BYNAME[(uni.name, r.name)] = r
    if key in _BYNAME:
        return _BYNAME[key]
    raise KeyError(name)
