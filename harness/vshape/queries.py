"""Query conformance: containment (C03), equality (C07), point membership (C02),
moments (C04), measure consistency (C05) on objects built from specification
regions; expected answers come from the TLC exports."""
from __future__ import annotations

import copy as _copy
import time
import traceback
from fractions import Fraction as F

from . import realise, replay, spectab, world
from .world import Failure, kind_of


def _w(uname, rname, wlevel=1):
    st = replay._tables(uname)
    real = realise.by_name(st.u, rname)
    return st, real, world.World(st, real, wlevel=wlevel)


def _result(uname, rname, case, fails, t0, steps, row=None, machinery=None):
    return {"universe": uname, "real": rname, "case": case, "row": row, "fails": [f.as_dict() if isinstance(f, Failure) else f for f in fails],
            "stats": {}, "wall": time.time() - t0, "steps": steps, "machinery": machinery}


def guarded(fn):
    import functools

    @functools.wraps(fn)
    def run(job):
        t0 = time.time()
        try:
            return fn(job, t0)
        except BaseException:  # noqa
            return _result(job[0], job[1], str(job[2])[:60], [], t0, [], machinery=traceback.format_exc())
    return run


# ------------------------------------------------------------------ C03 / C07
@guarded
def pairq_case(job, t0):
    uname, rname, row, opts = job
    st, real, w = _w(uname, rname)
    sp = w.sp
    ra, rb = row["a"], row["b"]
    A, B = w.canonical(ra), w.canonical(rb)
    snapA, snapB = w.snapshot(A), w.snapshot(B)
    fails = []
    steps = [["MakeRegion", [1, ra]], ["MakeRegion", [2, rb]], ["QSubset", [1, 2]], ["QSubset", [2, 1]], ["QEq", [1, 2]]]

    def ask(prop, what, fn, expected, **kw):
        try:
            got = fn()
        except BaseException as ex:  # noqa
            fails.append(Failure(prop, what + " raised", exc=repr(ex), a=ra, b=rb, **kw))
            return None
        if got is not expected:
            fails.append(Failure(prop, what, expected=expected, got=repr(got), a=ra, b=rb, **kw))
        return got

    ask("C03", "`B in A` differs from subset", lambda: B in A, row["sub_ba"])
    ask("C03", "`A in B` differs from subset", lambda: A in B, row["sub_ab"])
    ask("C07", "A == B differs from region equality", lambda: A == B, row["eq"])
    ask("C07", "B == A differs from region equality", lambda: B == A, row["eq"])
    if kind_of(B) not in "EW" and kind_of(A) not in "EW" and row["cls"] != "I":
        for flag, key in ((True, "jin_closed"), (False, "jin_open")):
            if row["cls"] == "P" and not flag:
                continue
            ask("C03", "curves of B in A (boundary=%s) differ" % flag,
                lambda: all(A.contains_jordan(j, flag) for j in B.jordans), row[key])
        if row[key if False else "jin_closed"]:
            ask("C03", "`jordan in A` differs", lambda: all((j in A) for j in B.jordans), True)
    # consequences stated by C03
    if row["sub_ba"] and row["cls"] == "T" and kind_of(A) not in "EW" and kind_of(B) not in "EW":
        ask("C03", "B in A but A|B != A", lambda: (A | B) == A, True)
        ask("C03", "B in A but A&B != B", lambda: (A & B) == B, True)
    if ra == rb:
        ask("C03", "A in A is not True", lambda: A in A, True)
    # C07: other representations of the same region compare equal, all ways round
    if ra == rb and kind_of(A) not in "EW":
        variants = []
        try:
            n = len(st.loops(ra)[0])
            variants.append(("rot", w.canonical_variant(ra, rot=1 + n // 2)))
            variants.append(("copy", _copy.deepcopy(A)))
            S = _copy.deepcopy(A)
            for j in S.jordans:
                idx = list(range(0, len(j.segments), 2))
                j.split(idx, [F(1, 2) if w.real.numtype != "float" else 0.5] * len(idx))
            variants.append(("split", S))
            S3 = _copy.deepcopy(A)
            for j in S3.jordans:
                idx = list(range(1, len(j.segments), 2)) or [0]
                j.split(idx, [F(1, 3) if w.real.numtype != "float" else 1 / 3] * len(idx))
            variants.append(("split3", S3))
            # history: queried, moved away in place, and moved back to the same place
            M = w.canonical(ra)
            for j in M.jordans:
                (0.123, 0.456) in j
            float(M)
            M.move(3, -2)
            M2 = w.canonical(ra, ("m1",))           # built directly at the moved place, never queried
            try:
                if (M == M2) is not True or (M2 == M) is not True:
                    fails.append(Failure("C07", "a shape moved in place after a query is not == the same region built at that place", a=ra))
            except BaseException as ex:  # noqa
                fails.append(Failure("C07", "== raised after an in-place move", exc=repr(ex), a=ra))
            R_ = w.canonical(ra)
            for j in R_.jordans:
                (0.123, 0.456) in j
            R_.rotate(90, True)
            R2 = w.canonical(ra, ("r1",))
            try:
                if (R_ == R2) is not True or (R2 == R_) is not True:
                    fails.append(Failure("C07", "a shape rotated in place after a query is not == the same region built at that place", a=ra))
            except BaseException as ex:  # noqa
                fails.append(Failure("C07", "== raised after an in-place rotation", exc=repr(ex), a=ra))
            if real.numtype != "float" and real.deg == 1:
                variants.append(("float", w.canonical_variant(ra, numtype="float")))
        except BaseException as ex:  # noqa
            fails.append(Failure("C07", "building a variant raised", exc=repr(ex), a=ra))
        for name, V in variants:
            ask("C07", "variant not == original", lambda: A == V, True, variant=name)
            ask("C07", "original not == variant", lambda: V == A, True, variant=name)
        for (n1, V1) in variants:
            for (n2, V2) in variants:
                if n1 < n2:
                    ask("C07", "two variants of one region not ==", lambda: V1 == V2, True, variant=n1 + "/" + n2)
    if ra != rb and kind_of(A) not in "EW" and kind_of(B) not in "EW":
        try:
            V = w.canonical_variant(rb, rot=1)
            ask("C07", "different regions compare equal (variant)", lambda: A == V, False)
        except BaseException as ex:  # noqa
            fails.append(Failure("C07", "building a variant raised", exc=repr(ex), a=rb))
    # C08: queries never change their operands
    if w.snapshot(A) != snapA or w.snapshot(B) != snapB:
        okA = not w.compare(A, {"reg": ra}, deep=False)
        okB = not w.compare(B, {"reg": rb}, deep=False)
        if not (okA and okB):
            fails.append(Failure("C08", "a query changed the region of an operand", a=ra, b=rb))
    return _result(uname, rname, "q:%d:%d" % (ra, rb), fails, t0, steps, row={"op": "q", "a": ra, "b": rb, "res": 0, "cls": row["cls"]})


# ------------------------------------------------------------------ C02
def expected_class(st, reg, kind, key):
    """'in' / 'out' / 'on' of a witness with respect to region reg"""
    u = st.u
    bit = lambda c: bool((reg >> u.cell_face[c]) & 1)
    if kind in "cek":
        return "in" if bit(key) else "out"
    if kind == "f":
        return "in" if reg & 1 else "out"
    if kind == "v":
        if st.passmap(reg)[key] != "n":
            return "on"
        i, j = key
        return "in" if bit((max(i, 1), max(j, 1))) else "out"
    if kind == "b":
        (i0, j0), (i1, j1) = key
        N = u.N
        if i0 == i1:  # vertical edge at x = i0 between y j0..j1: cells (i0, j1), (i0+1, j1)
            cs = [(i0, j1), (i0 + 1, j1)]
        else:
            cs = [(i1, j0), (i1, j0 + 1)]
        cs = [c for c in cs if 1 <= c[0] <= N and 1 <= c[1] <= N]
        vals = {bit(c) for c in cs}
        if len(vals) == 2:
            return "on"
        return "in" if vals.pop() else "out"
    raise ValueError(kind)


@guarded
def points_case(job, t0):
    uname, rname, reg, opts = job
    st, real, w = _w(uname, rname, wlevel=2)
    word = tuple(opts.get("frame", ()))
    fails = []
    how = opts.get("how", "canonical")
    if how == "canonical":
        obj = w.canonical(reg, word)
    else:  # built by an operator from two regions
        op, ra, rb = how
        obj = replay.OPFUN[op](w.canonical(ra), w.canonical(rb))
    T = realise.frame_affine(word) if word else None
    npts = 0
    pm = None
    if opts.get("mirror"):
        # a mirror through the API after the shape was queried: scale(-1, 1) reverses the
        # orientation of every boundary curve, so the object denotes the mirror image of the
        # COMPLEMENT (the region is defined by the orientation; C09 restricts itself to positive
        # factors for that reason).  Membership must follow the geometry, not an earlier answer.
        obj = w.canonical(reg)
        float(obj), (0.123, 0.456) in obj
        for j in obj.jordans:
            float(j)
        obj.scale(-1, 1)
        T = realise.Affine(-1, 0, 0, 0, 1, 0)
        reg = st.u.full ^ reg
    for kind, key, g in w.wit + real.boundary_witnesses():
        exp = expected_class(st, reg, kind, key)
        p = w.qpoint(real.img(g[0], g[1], T))
        for flag in (True, False):
            want = exp == "in" or (exp == "on" and flag)
            try:
                if kind_of(obj) in "EW":
                    got = p in obj
                else:
                    got = obj.contains_point(p, flag)
                    if flag:
                        got2 = p in obj
                        if got2 is not got:
                            fails.append(Failure("C02", "`in` differs from contains_point(boundary=True)", reg=reg, point=g))
            except BaseException as ex:  # noqa
                fails.append(Failure("C02", "point query raised", exc=repr(ex), reg=reg, point=g, flag=flag))
                continue
            npts += 1
            if got is not want:
                fails.append(Failure("C02", "point membership wrong", reg=reg, wkind=kind, point=g, cls=exp, boundary=flag, got=repr(got)))
        if len(fails) > 8:
            break
    r = _result(uname, rname, "pts:%d:%s" % (reg, how if how == "canonical" else "%s:%d:%d" % tuple(how)), fails, t0, [["MakeRegion", [1, reg]], ["QPoint*", npts]])
    r["stats"] = {"points": npts}
    return r


# ------------------------------------------------------------------ C04 / C05
ORDERS4 = [(a, b) for a in range(5) for b in range(5) if a + b <= 4]


@guarded
def moments_case(job, t0):
    uname, rname, reg, opts = job
    st, real, w = _w(uname, rname)
    word = tuple(opts.get("frame", ()))
    if opts.get("via_api"):
        # history: measure first (warm every cache), then transform in place through the API
        obj = w.canonical(reg)
        fails = w.compare_moments(obj, reg, (), orders=ORDERS4[:6], what="before the transformations")
        float(obj)
        for g in word:
            meth, margs, _ = w.gens[g]
            getattr(obj, meth)(*margs)
        exact = all(g in world.EXACT_GENS for g in word)
        fails += w.compare_moments(obj, reg, word, orders=ORDERS4, what="after move/scale/rotate through the API", exact=exact)
    else:
        obj = w.canonical(reg, word)
        fails = w.compare_moments(obj, reg, word, orders=ORDERS4, what="canonical")
    rec = {"reg": reg, "frame": word}
    rp = replay.Replayer(st, real, check_c10=False)
    fails += rp.measure(obj, rec)
    # per-curve integrals: IntegrateJordan.area of each loop
    if kind_of(obj) not in "EW":
        tot = 0
        for j in obj.jordans:
            tot += w.sp.IntegrateJordan.area(j)
        T = realise.frame_affine(word) if word else realise.Affine()
        exp = real.moment(reg, 0, 0, T)
        if not abs(float(tot) - float(exp)) <= 1e-9 * float(w.abs_moment(0, 0, T)):
            fails.append(Failure("C04", "sum of IntegrateJordan.area differs from the area", expected=float(exp), got=float(tot), reg=reg))
    return _result(uname, rname, "mom:%d" % reg, fails, t0, [["MakeRegion", [1, reg]], ["QMeasure", [1]]])


@guarded
def incl_excl_case(job, t0):
    """C05 on the library's own numbers, and against the specification's moments"""
    uname, rname, row, opts = job
    st, real, w = _w(uname, rname)
    sp = w.sp
    ra, rb = row["a"], row["b"]
    A, B = w.canonical(ra), w.canonical(rb)
    if opts.get("via_invert") and kind_of(A) == "S":
        # history: the operand is obtained by inverting its complement in place after a query
        A = w.canonical(st.u.full ^ ra)
        float(A), (B in A)
        A.invert()
    fails = []
    exact = w.exact_mode(())
    orders = [(0, 0), (1, 0), (0, 1), (2, 0), (1, 1), (0, 2)]

    def m(obj, a, b):
        if kind_of(obj) in "EW":
            return 0
        return sp.IntegrateShape.polynomial(obj, a, b)

    try:
        R = {"or": A | B, "and": A & B, "sub": A - B, "xor": A ^ B, "inv": ~A}
    except BaseException as ex:  # noqa
        allowed = row["cls"] != "T"
        if not allowed:
            fails.append(Failure("C05", "operator raised on transversal operands", exc=repr(ex), a=ra, b=rb))
        return _result(uname, rname, "ie:%d:%d" % (ra, rb), fails, t0, [], row={"op": "ie", "a": ra, "b": rb, "res": 0, "cls": row["cls"]})
    u = st.u
    regs = {"or": ra | rb, "and": ra & rb, "sub": ra & ~rb & u.full, "xor": ra ^ rb, "inv": u.full ^ ra}
    for a, b in orders:
        mA, mB = m(A, a, b), m(B, a, b)
        mm = {k: m(v, a, b) for k, v in R.items()}
        scale = float(w.abs_moment(a, b, realise.Affine()))
        ids = [
            ("m(A|B)+m(A&B)=m(A)+m(B)", mm["or"] + mm["and"], mA + mB),
            ("m(A-B)=m(A)-m(A&B)", mm["sub"], mA - mm["and"]),
            ("m(A^B)=m(A|B)-m(A&B)", mm["xor"], mm["or"] - mm["and"]),
            ("m(~A)=-m(A)", mm["inv"], -mA),
        ]
        for name, lhs, rhs in ids:
            if exact:
                ok = lhs == rhs and not isinstance(lhs, float) and not isinstance(rhs, float)
            else:
                ok = abs(float(lhs) - float(rhs)) <= 1e-5 * scale
            if not ok:
                fails.append(Failure("C05", "identity violated: " + name, ab=(a, b), lhs=lhs, rhs=rhs, a=ra, b=rb))
        # against the specification (catches two compensating errors)
        for k, v in mm.items():
            exp = real.moment(regs[k], a, b)
            ok = (v == exp) if exact else abs(float(v) - float(exp)) <= 1e-5 * scale
            if not ok:
                fails.append(Failure("C05", "moment of %s result differs from the specification" % k, ab=(a, b), expected=exp, got=v, a=ra, b=rb))
        if len(fails) > 6:
            break
    steps = [["MakeRegion", [1, ra]], ["MakeRegion", [2, rb]], ["Bin", ["or", 3, 1, 2]], ["Bin", ["and", 3, 1, 2]], ["Bin", ["sub", 3, 1, 2]], ["Bin", ["xor", 3, 1, 2]], ["Inv", [3, 1, "inv"]], ["QMeasure*", len(orders)]]
    return _result(uname, rname, "ie:%d:%d" % (ra, rb), fails, t0, steps, row={"op": "ie", "a": ra, "b": rb, "res": regs["or"], "cls": row["cls"]})


# ------------------------------------------------------------------ C19
@guarded
def c19_case(job, t0):
    """direct composite constructors against operator results, in every order"""
    import itertools

    uname, rname, reg, opts = job
    st, real, w = _w(uname, rname)
    sp = w.sp
    fails = []
    groups = w.components(reg)
    comps_simples = [[w.simple_from_loop(lp) for lp in g] for g in groups]
    rec = {"reg": reg, "frame": (), "splits": (), "segk": True}
    tags = {"region": "C19", "kind": "C19", "loops": "C19", "moment": "C19", "vertices": "C19"}
    E = sp.EmptyShape()
    nperm = 0

    def build(order_c, orders_s, empties=0):
        parts = []
        for ci in order_c:
            simples = [_copy.deepcopy(comps_simples[ci][k]) for k in orders_s[ci]]
            parts.append(simples[0] if len(simples) == 1 else sp.ConnectedShape(simples))
        if len(parts) == 1 and not empties:
            return parts[0]
        lst = list(parts)
        for e in range(empties):
            lst.insert(e % (len(lst) + 1), E)
        return sp.DisjointShape(lst)

    def by_ops():
        parts = []
        for simples in comps_simples:
            acc = _copy.deepcopy(simples[0])
            for s in simples[1:]:
                acc = acc & _copy.deepcopy(s)
            parts.append(acc)
        acc = parts[0]
        for p_ in parts[1:]:
            acc = acc | p_
        return acc

    try:
        ref = by_ops()
        for f in w.compare(ref, rec, what="operator-built", tags={"region": "C01", "kind": "C06", "loops": "C06", "moment": "C04"}):
            fails.append(f)
        nc = len(groups)
        corders = list(itertools.permutations(range(nc)))[:6]
        for oc in corders:
            sorders_all = [list(itertools.permutations(range(len(g))))[:6] for g in groups]
            for pick in range(max(len(x) for x in sorders_all)):
                orders_s = [x[pick % len(x)] for x in sorders_all]
                for empties in (0, 1) if nc > 1 or pick == 0 else (0,):
                    obj = build(oc, orders_s, empties)
                    nperm += 1
                    ff = w.compare(obj, rec, what="direct %s/%s/e%d" % (oc, orders_s, empties), tags=tags)
                    fails.extend(ff)
                    for a_, b_, nm in ((obj, ref, "direct == operators"), (ref, obj, "operators == direct")):
                        try:
                            eq = a_ == b_
                        except BaseException as ex:  # noqa
                            eq = repr(ex)
                        if eq is not True:
                            fails.append(Failure("C19", nm + " is not True", got=repr(eq), reg=reg, order=(oc, orders_s, empties)))
                    try:
                        inv = ~obj
                        fails.extend(w.compare(inv, {"reg": st.u.full ^ reg, "frame": ()}, what="complement of direct", tags=tags, deep=False))
                    except BaseException as ex:  # noqa
                        fails.append(Failure("C19", "complement of direct object raised", exc=repr(ex), reg=reg))
                    if len(fails) > 6:
                        break
        # collapse rules
        one = comps_simples[0][0]
        d1 = sp.DisjointShape([one])
        if d1 is one or w.ident(d1) & w.ident(one):
            fails.append(Failure("C19", "DisjointShape([x]) is not an independent copy of x", reg=reg))
        if not (d1 == one):
            fails.append(Failure("C19", "DisjointShape([x]) != x", reg=reg))
        if sp.DisjointShape([]) is not E or sp.DisjointShape([E, E]) is not E:
            fails.append(Failure("C19", "DisjointShape of nothing is not Empty", reg=reg))
        d2 = sp.DisjointShape([E, one, E])
        if not (d2 == one) or d2 is one:
            fails.append(Failure("C19", "DisjointShape([Empty, x, Empty]) is not a copy of x", reg=reg))
    except BaseException as ex:  # noqa
        fails.append(Failure("C19", "raised", exc=repr(ex), tb=traceback.format_exc(limit=-3), reg=reg))
    r = _result(uname, rname, "c19:%d" % reg, fails, t0, [["MkConnected/MkDisjoint*", nperm], ["MakeRegion", [1, reg]]])
    r["stats"] = {"perms": nperm}
    return r


# ------------------------------------------------------------------ C14
@guarded
def inter_case(job, t0):
    """JordanCurve.intersection against the specification's crossings"""
    uname, rname, row, opts = job
    st, real, w = _w(uname, rname)
    ra, rb = row["a"], row["b"]
    A, B = w.canonical(ra), w.canonical(rb)
    fails = []
    if kind_of(A) in "EW" or kind_of(B) in "EW":
        return _result(uname, rname, "x:%d:%d" % (ra, rb), fails, t0, [], row={"op": "x", "a": ra, "b": rb, "res": 0, "cls": row["cls"]})
    exact = w.exact_mode(())
    tol = 0 if exact else 1e-6
    look = w.lookup(())

    def cyc(j):
        return [look(s.ctrlpoints[0]) for s in j.segments]

    def expected(JA, JB):
        ca, cb = cyc(JA), cyc(JB)
        out = []
        for x in row["xing"]:
            la, lb = tuple(x["a"]["loop"]), tuple(x["b"]["loop"])
            if la not in ca or lb not in cb:
                continue
            loopa = [l for l in st.loops(ra) if l[0] == la][0]
            loopb = [l for l in st.loops(rb) if l[0] == lb][0]
            if set(loopa) != set(p for p in ca if p in loopa) or not set(loopa) <= set(ca) or not set(loopb) <= set(cb):
                continue
            sa = ca.index(loopa[x["a"]["edge"] - 1])
            sb = cb.index(loopb[x["b"]["edge"] - 1])

            def par(loop, hit):
                # parameter of the crossing on its edge in the grid-line coordinates of THIS
                # realisation (the specification's `par` is the same ratio in the coordinates XS, YS)
                pa, pb, pt = loop[hit["edge"] - 1], loop[hit["edge"] % len(loop)], tuple(x["pt"])
                A_, B_, P_ = real.coord(*pa), real.coord(*pb), real.coord(*pt)
                k_ = 0 if pa[1] == pb[1] else 1
                u_ = (P_[k_] - A_[k_]) / (B_[k_] - A_[k_])
                if real.xs == [F(v) for v in st.u.XS] and real.ys == [F(v) for v in st.u.YS]:
                    assert u_ == F(hit["par"][0], hit["par"][1]), (u_, hit)
                return u_

            out.append((sa, sb, par(loopa, x["a"]), par(loopb, x["b"])))
        return sorted(out)

    def close(p, q):
        return p == q if exact else abs(float(p) - float(q)) <= tol

    npairs = 0
    for JA in A.jordans:
        for JB in B.jordans:
            npairs += 1
            exp = expected(JA, JB)
            try:
                got = JA.intersection(JB)
                gots = JB.intersection(JA)
                amp = JA & JB
            except BaseException as ex:  # noqa
                fails.append(Failure("C14", "intersection raised", exc=repr(ex), a=ra, b=rb))
                continue
            for (a, b, u, v) in got:
                if u is None:
                    fails.append(Failure("C14", "(None, None) reported for segments that are not identical", a=ra, b=rb, entry=(a, b)))
                    continue
                if not (0 <= a < len(JA.segments) and 0 <= b < len(JB.segments) and 0 <= u <= 1 and 0 <= v <= 1):
                    fails.append(Failure("C14", "entry out of range", a=ra, b=rb, entry=(a, b, u, v)))
                    continue
                pa, pb = JA.segments[a](u), JB.segments[b](v)
                if not (pa == pb):
                    fails.append(Failure("C14", "A.segments[a](u) != B.segments[b](v)", a=ra, b=rb, entry=(a, b, u, v)))
            gg = sorted((a, b, u, v) for (a, b, u, v) in got if u is not None)
            if len(gg) != len(exp) or any(e[0] != g[0] or e[1] != g[1] or not close(e[2], g[2]) or not close(e[3], g[3]) for e, g in zip(exp, gg)):
                fails.append(Failure("C14", "reported crossings differ from the specification", a=ra, b=rb, expected=exp, got=gg))
            sw = sorted((b, a, v, u) for (a, b, u, v) in gots if u is not None)
            if len(sw) != len(gg) or any(x[0] != y[0] or x[1] != y[1] or not close(x[2], y[2]) or not close(x[3], y[3]) for x, y in zip(sw, gg)):
                fails.append(Failure("C14", "swapping the operands does not swap the roles", a=ra, b=rb, ab=gg, ba=sw))
            if sorted(amp) != sorted(JA.intersection(JB, equal_beziers=False, end_points=False)):
                fails.append(Failure("C14", "A & B differs from intersection(equal_beziers=False, end_points=False)", a=ra, b=rb))
            if exact:
                for (a, b, u, v) in gg:
                    if isinstance(u, float) or isinstance(v, float):
                        fails.append(Failure("C13", "crossing parameter is a float for rational input", a=ra, b=rb, entry=(a, b, u, v)))
    if len({(tuple(x["pt"])) for x in row["xing"]}) % 2:
        fails.append(Failure("C14", "odd number of crossings in the specification", a=ra, b=rb))
    # after splitting both shapes at the crossings (as the operators do): crossings at vertices
    # (not under poly-frac-big: split points are rounded there, finding F-C13-intermediate-cap)
    try:
        if real.name == "poly-frac-big":
            raise StopIteration
        _ = A | B if row["reaches"] else None
        for JA in A.jordans:
            for JB in B.jordans:
                full = JA.intersection(JB)
                noend = JA.intersection(JB, end_points=False)
                ca, cb = cyc(JA), cyc(JB)
                pts = {tuple(x["pt"]) for x in row["xing"] if tuple(x["pt"]) in ca and tuple(x["pt"]) in cb}
                endp = [(a, b, u, v) for (a, b, u, v) in full if u is not None]
                if not row["reaches"]:
                    continue
                covered = set()
                for (a, b, u, v) in endp:
                    pa, pb = JA.segments[a](u), JB.segments[b](v)
                    if not (pa == pb):
                        fails.append(Failure("C14", "A.segments[a](u) != B.segments[b](v) (after splitting)", a=ra, b=rb, entry=(a, b, u, v)))
                    covered.add(look(pa))
                if not pts <= covered:
                    fails.append(Failure("C14", "a crossing at an existing vertex is not reported", a=ra, b=rb, missing=sorted(pts - covered), got=endp))
                if exact:
                    bad = [e for e in endp if not (e[2] in (0, 1) and e[3] in (0, 1))]
                    if bad or len(endp) != 4 * len(pts):
                        fails.append(Failure("C14", "crossings at existing vertices not reported as the four end-point entries (rational data)", a=ra, b=rb, got=endp, npts=len(pts)))
                if [e for e in noend if e[2] is not None and e[2] in (0, 1) and e[3] in (0, 1)]:
                    fails.append(Failure("C14", "end_points=False keeps end-point entries", a=ra, b=rb, got=noend))
                want_noend = sorted(e for e in full if e[2] is None or not (e[2] in (0, 1) and e[3] in (0, 1)))
                if sorted(noend, key=repr) != sorted(want_noend, key=repr):
                    fails.append(Failure("C14", "end_points=False does not filter exactly the end-point entries", a=ra, b=rb, full=full, noend=noend))
    except StopIteration:
        pass
    except BaseException as ex:  # noqa
        fails.append(Failure("C14", "intersection after splitting raised", exc=repr(ex), a=ra, b=rb))
    # history: both shapes moved in place by the same vector after one of them was queried:
    # the crossings (parameters are invariant under the move) must still be reported
    if row["xing"]:
        try:
            A2, B2 = w.canonical(ra), w.canonical(rb)
            for j in A2.jordans:
                (0.123, 0.456) in j
                j.box()
            A2.move(5, 7)
            B2.move(5, 7)
            for JA, JA2 in zip(A.jordans, A2.jordans):
                for JB, JB2 in zip(B.jordans, B2.jordans):
                    g0 = sorted((a, b) for (a, b, u, v) in w.canonical(ra).jordans[list(A.jordans).index(JA)].intersection(w.canonical(rb).jordans[list(B.jordans).index(JB)]) if u is not None)
                    g1 = sorted((a, b) for (a, b, u, v) in JA2.intersection(JB2) if u is not None)
                    if g0 != g1:
                        fails.append(Failure("C14", "crossings lost or changed after both curves were moved in place", a=ra, b=rb, before=g0, after=g1))
        except BaseException as ex:  # noqa
            fails.append(Failure("C14", "intersection after an in-place move raised", exc=repr(ex), a=ra, b=rb))
    # identical curves: (None, None) exactly for identical segments
    if ra == rb or not row["xing"]:
        J = A.jordans[0] if kind_of(A) in "SCD" else None
        if J is not None:
            K = _copy.deepcopy(J)
            n = len(J.segments)
            got = J.intersection(K)
            nn = sorted((a, b) for (a, b, u, v) in got if u is None)
            if nn != [(i, i) for i in range(n)]:
                fails.append(Failure("C14", "(None, None) entries are not exactly the identical segments", a=ra, got=nn, n=n))
            if any(u is None for (_, _, u, _) in J.intersection(K, equal_beziers=False)):
                fails.append(Failure("C14", "equal_beziers=False keeps (None, None) entries", a=ra))
            if [e for e in J.intersection(K, equal_beziers=False, end_points=False) if e[2] is not None and not (0 < e[2] < 1 or 0 < e[3] < 1)]:
                fails.append(Failure("C14", "end_points=False keeps end-point entries (identical curves)", a=ra))
    r = _result(uname, rname, "x:%d:%d" % (ra, rb), fails, t0, [["MakeRegion", [1, ra]], ["MakeRegion", [2, rb]], ["QInter*", npairs]], row={"op": "x", "a": ra, "b": rb, "res": 0, "cls": row["cls"]})
    return r


# ------------------------------------------------------------------ C15
@guarded
def split_case(job, t0):
    """replay a SplitClean behaviour on a real JordanCurve"""
    uname, rname, reg, beh, opts = job
    st, real, w = _w(uname, rname)
    sp = w.sp
    den = opts.get("den", 12)
    loop = st.loops(reg)[0]
    ns = len(loop)
    shape = w.simple_from_loop(loop)
    J = shape.jordans[0]
    orig = _copy.deepcopy(J)
    osegs = list(orig.segments)
    assert len(osegs) == ns, (len(osegs), ns)
    exact = w.exact_mode(())
    isfloat = real.numtype == "float"
    fails = []
    area0 = sp.IntegrateJordan.area(orig)
    sign0 = float(orig) > 0
    steps = []

    def par(p, dup):
        n, d = p
        if isfloat:
            v = n / d
            if n == 0:
                return 1e-7 if dup else 0.0     # "near 0" is ignored like 0
            if n == d:
                return 1 - 1e-7 if dup else 1.0
            return v + (1e-12 if dup else 0.0)   # nearly repeated parameter
        return F(n, d)

    def check(brk, what):
        segs = list(J.segments)
        exp = []
        for i in range(ns):
            pts = sorted(set(brk[i]) | {0, den})
            exp += [(i, pts[k], pts[k + 1]) for k in range(len(pts) - 1)]
        if len(segs) != len(exp):
            fails.append(Failure("C15", "number of segments differs from the specification", after=what, expected=len(exp), got=len(segs)))
            return False
        tol = 0 if exact else (1e-9 if real.deg == 1 else 1e-6)
        for c, (i, lo, hi) in enumerate(exp):
            piece, o = segs[c], osegs[i]
            for s_ in (F(0), F(1, 4), F(1, 2), F(3, 4), F(1)):
                t = F(lo, den) + s_ * F(hi - lo, den)
                if isfloat:
                    s_, t = float(s_), float(t)
                p, q = piece(s_), o(t)
                d = abs(float(p[0]) - float(q[0])) + abs(float(p[1]) - float(q[1]))
                ok = (p[0] == q[0] and p[1] == q[1]) if exact else d <= tol * max(1.0, real.size)
                if not ok:
                    fails.append(Failure("C15", "piece does not retrace its part of the original segment", after=what, piece=c, orig=i, lo=lo, hi=hi, s=s_, dist=d))
                    return False
            nxt = segs[(c + 1) % len(segs)]
            if piece.ctrlpoints[-1] is not nxt.ctrlpoints[0]:
                fails.append(Failure("C15", "consecutive pieces do not share one junction point", after=what, piece=c))
                return False
            a_, b_ = piece.ctrlpoints[0], piece.ctrlpoints[-1]
            if abs(float(a_[0]) - float(b_[0])) + abs(float(a_[1]) - float(b_[1])) < 1e-9 * max(1.0, real.size):
                fails.append(Failure("C15", "zero-length piece", after=what, piece=c))
                return False
        area = sp.IntegrateJordan.area(J)
        if (area != area0) if exact else abs(float(area) - float(area0)) > 1e-6 * max(1.0, abs(float(area0))):
            fails.append(Failure("C15", "enclosed area changed", after=what, before=area0, now=area))
        if (float(J) > 0) != sign0:
            fails.append(Failure("C15", "orientation changed", after=what))
        return True

    for name, args, state in beh:
        if name == "SCInit":
            continue
        last = state["last"]
        brk = [sorted(b) for b in state["brk"]]
        try:
            if last["call"] == "split":
                pairs = [tuple(p) for p in last["pairs"]]
                seen = set()
                idx, nodes = [], []
                for c, p in pairs:
                    dup = (c, tuple(p)) in seen or (tuple(p)[0] in (0, tuple(p)[1]) and len(seen) % 2 == 1)
                    seen.add((c, tuple(p)))
                    idx.append(c - 1)
                    nodes.append(par(tuple(p), dup))
                steps.append(["split", idx, [str(n) for n in nodes]])
                J.split(idx, nodes)
            else:
                steps.append(["clean"])
                r = J.clean()
                if r is not J:
                    fails.append(Failure("C15", "clean() did not return the same curve"))
                n1 = len(J.segments)
                J.clean()
                if len(J.segments) != n1:
                    fails.append(Failure("C15", "clean() is not idempotent"))
                try:
                    eq = J == orig
                except BaseException as ex:  # noqa
                    eq = repr(ex)
                if eq is not True:
                    fails.append(Failure("C15", "split followed by clean is not == the original", got=repr(eq)))
        except BaseException as ex:  # noqa
            fails.append(Failure("C15", "%s raised" % last["call"], exc=repr(ex), tb=traceback.format_exc(limit=-2), steps=steps))
            break
        if not check(brk, steps[-1]):
            break
    if not fails:
        # the shape that owns the curve still denotes its region
        fails += w.compare(shape, {"reg": reg, "frame": ()}, deep=False, tags={"region": "C15", "kind": "C15"})
    return _result(uname, rname, "sc:%d:%s" % (reg, replay.hashlib.sha256(json.dumps(steps).encode()).hexdigest()[:8]), fails, t0, steps)


import json  # noqa: E402


# ------------------------------------------------------------------ C18
def bezier_case(job):
    """segment calculus against the values computed by TLC from spec/Bezier.tla"""
    import math
    t0 = time.time()
    table_path, kx, ky, opts = job
    try:
        sp = world.shapepy()
        from shapepy.curve import Math, IntegratePlanar
        d = json.load(open(table_path))
        cx, cy = d["cases"][kx], d["cases"][ky]
        assert len(cx["cp"]) == len(cy["cp"])
        p = len(cx["cp"]) - 1
        nodes = [tuple(n) for n in d["nodes"]]
        numtype = opts.get("numtype", "frac")
        conv = (lambda v: F(v)) if numtype == "frac" else (lambda v: int(v)) if numtype == "int" else (lambda v: float(v))
        ctrl = [(conv(a), conv(b)) for a, b in zip(cx["cp"], cy["cp"])]
        seg = sp.PlanarCurve(ctrl)
        fails = []
        exact = numtype != "float"

        def same(got, ex):
            if exact:
                return got[0] == ex[0] and got[1] == ex[1] and not isinstance(got[0], float) and not isinstance(got[1], float)
            return abs(float(got[0]) - float(ex[0])) + abs(float(got[1]) - float(ex[1])) <= 1e-9 * (1 + abs(float(ex[0])) + abs(float(ex[1])))

        # the memoised characteristic matrix, cold then warm
        for rep_ in range(2):
            M = Math.bezier_caract_matrix(p)
            if [list(r) for r in M] != d["caract"][p - 1]:
                fails.append(Failure("C18", "bezier_caract_matrix differs from the Bernstein-to-monomial matrix", degree=p, got=[list(r) for r in M], call=rep_))
        dseg = seg.derivate() if p >= 1 else None
        for k, (n, dd) in enumerate(nodes):
            t = F(n, dd) if exact else n / dd
            ex = (F(cx["eval"][k][0], cx["eval"][k][1]), F(cy["eval"][k][0], cy["eval"][k][1]))
            try:
                got = seg(t)
                if not same(got, ex):
                    fails.append(Failure("C18", "segment(t) differs from the Bernstein sum", degree=p, t=str(t), expected=ex, got=(got[0], got[1])))
                got2 = seg.eval((t,))[0]
                if not same(got2, ex):
                    fails.append(Failure("C18", "eval((t,)) differs from the Bernstein sum", degree=p, t=str(t)))
                exd = (F(cx["deriv"][k][0], cx["deriv"][k][1]), F(cy["deriv"][k][0], cy["deriv"][k][1]))
                gd = dseg(t)
                if not same(gd, exd):
                    fails.append(Failure("C18", "derivate()(t) differs from the derivative", degree=p, t=str(t), expected=exd, got=(gd[0], gd[1])))
                b = seg.box()
                if not (b.lowpt[0] <= got[0] <= b.toppt[0] and b.lowpt[1] <= got[1] <= b.toppt[1]) or (got not in b):
                    fails.append(Failure("C18", "box() does not contain segment(t)", degree=p, t=str(t)))
                # split pieces re-parametrise the curve
                if 0 < n < dd:
                    left, right = seg.split((t,))
                    exl = [(F(a[0], a[1]), F(b_[0], b_[1])) for a, b_ in zip(cx["left"][k], cy["left"][k])]
                    exr = [(F(a[0], a[1]), F(b_[0], b_[1])) for a, b_ in zip(cx["right"][k], cy["right"][k])]
                    gl = [(q[0], q[1]) for q in left.ctrlpoints]
                    gr = [(q[0], q[1]) for q in right.ctrlpoints]
                    if len(gl) != len(exl) or not all(same(g, e) for g, e in zip(gl, exl)):
                        fails.append(Failure("C18", "left piece of split differs from de Casteljau", degree=p, t=str(t), expected=exl, got=gl))
                    if len(gr) != len(exr) or not all(same(g, e) for g, e in zip(gr, exr)):
                        fails.append(Failure("C18", "right piece of split differs from de Casteljau", degree=p, t=str(t), expected=exr, got=gr))
            except BaseException as ex_:  # noqa
                fails.append(Failure("C18", "segment calculus raised", degree=p, t=str(t), exc=repr(ex_), tb=traceback.format_exc(limit=-2)))
                break
        # derivative control points and higher derivatives
        if p >= 1:
            exdcp = list(zip(cx["dcp"], cy["dcp"]))
            gdcp = [(q[0], q[1]) for q in dseg.ctrlpoints]
            if len(gdcp) != len(exdcp) or not all(same(g, e) for g, e in zip(gdcp, exdcp)):
                fails.append(Failure("C18", "control points of the derivative differ from p(P[i+1]-P[i])", degree=p, expected=exdcp, got=gdcp))
        if p >= 2:
            a_, b_ = seg.derivate(2), seg.derivate().derivate()
            if [tuple(q) for q in a_.ctrlpoints] != [tuple(q) for q in b_.ctrlpoints]:
                fails.append(Failure("C18", "derivate(2) differs from derivate().derivate()", degree=p))
        # point-on-curve and winding for regular segments (monotone control polygons)
        xs = [c[0] for c in ctrl]
        regular = all(xs[i] < xs[i + 1] for i in range(len(xs) - 1))
        if regular and numtype == "float":
            for n in range(0, 21):
                t = n / 20
                q = seg(t)
                if not ((q[0], q[1]) in seg):
                    fails.append(Failure("C18", "segment(t) in segment is False for a regular segment", degree=p, t=t))
                    break
            # a point far from the curve is never `in` it
            b = seg.box()
            far = (float(b.toppt[0]) + 1.0, float(b.toppt[1]) + 1.0)
            if far in seg:
                fails.append(Failure("C18", "a point farther than the tolerance is `in` the segment", degree=p))
            # winding contribution = subtended angle / tau about a centre outside the control box
            c = (float(b.lowpt[0]) - 2.5, float(b.lowpt[1]) - 1.5)
            A, B = seg(0), seg(1)
            ang = math.atan2(float(B[1]) - c[1], float(B[0]) - c[0]) - math.atan2(float(A[1]) - c[1], float(A[0]) - c[0])
            while ang <= -math.pi:
                ang += math.tau
            while ang > math.pi:
                ang -= math.tau
            wn = IntegratePlanar.winding_number(seg, c)
            if abs(wn - ang / math.tau) > 1e-9:
                fails.append(Failure("C18", "winding contribution differs from the subtended angle", degree=p, expected=ang / math.tau, got=wn))
        # a segment that belongs to a closed curve: after the curve is moved / scaled / rotated in
        # place the segment's box must still contain the segment (history: box queried before)
        if numtype == "float" and p in (1, 2, 3) and kx % 3 == 0:
            base = {1: [[(0, 0), (4, 0)], [(4, 0), (1, 3)], [(1, 3), (0, 0)]],
                    2: [[(0, 0), (2, -2), (4, 0)], [(4, 0), (2, 2), (0, 0)]],
                    3: [[(0, 0), (3, 0)], [(3, 0), (3, 2), (0, 2), (0, 0)]]}[p]
            for how in ("move", "scale", "rotate"):
                J = sp.JordanCurve.from_ctrlpoints(base)
                for sg in J.segments:
                    sg.box(); (0.5, 0.1) in sg
                (0.5, 0.1) in J
                {"move": lambda: J.move(10, -7), "scale": lambda: J.scale(3, 2), "rotate": lambda: J.rotate(90, True)}[how]()
                for sg in J.segments:
                    b = sg.box()
                    for n in range(0, 11):
                        q = sg(n / 10)
                        if not (q in b):
                            fails.append(Failure("C18", "box() of a segment does not contain segment(t) after the curve was transformed in place", how=how, degree=sg.degree))
                            break
                    else:
                        if sg.degree >= 1 and not ((sg(0.5)[0], sg(0.5)[1]) in sg):
                            fails.append(Failure("C18", "segment(t) in segment is False after the curve was transformed in place", how=how, degree=sg.degree))
        return {"universe": "bezier", "real": numtype, "case": "bz:%d:%d" % (kx, ky), "row": None, "fails": [f.as_dict() for f in fails], "stats": {}, "wall": time.time() - t0,
                "steps": [["PlanarCurve", [str(c) for c in ctrl]], ["Eval/Derivate/Split at", [list(n) for n in nodes]]], "machinery": None}
    except BaseException:  # noqa
        return {"universe": "bezier", "real": "?", "case": "bz:%d:%d" % (kx, ky), "fails": [], "stats": {}, "wall": time.time() - t0, "machinery": traceback.format_exc()}


# ------------------------------------------------------------------ C17
PTS4 = [(0, 0), (4, 0), (4, 3), (0, 3)]


def chains_case(job):
    """replay chains enumerated by TLC (spec/Curves.tla) through from_segments / from_ctrlpoints"""
    t0 = time.time()
    table_path, idxs, opts = job
    try:
        sp = world.shapepy()
        d = json.load(open(table_path))
        numtype, deg = opts.get("numtype", "int"), opts.get("deg", 1)
        conv = {"int": int, "frac": F, "float": float}[numtype]
        fails = []
        n = 0
        for ix in idxs:
            c = d["chains"][ix]
            chain, closed = c["chain"], c["closed"]

            def ctrl(a, b):
                P, Q = PTS4[a - 1], PTS4[b - 1]
                if deg == 1:
                    return [(conv(P[0]), conv(P[1])), (conv(Q[0]), conv(Q[1]))]
                mx, my = F(P[0] + Q[0], 2) + F(Q[1] - P[1], 5), F(P[1] + Q[1], 2) - F(Q[0] - P[0], 5)
                mid = (float(mx), float(my)) if numtype == "float" else (mx, my)
                return [(conv(P[0]), conv(P[1])), mid, (conv(Q[0]), conv(Q[1]))]

            for how in ("segments", "ctrlpoints"):
                n += 1
                try:
                    if how == "segments":
                        J = sp.JordanCurve.from_segments([sp.PlanarCurve(ctrl(a, b)) for a, b in chain])
                    else:
                        J = sp.JordanCurve.from_ctrlpoints([ctrl(a, b) for a, b in chain])
                    out = "accepted"
                except BaseException as ex:  # noqa
                    out = "raised"
                if closed and out != "accepted":
                    fails.append(Failure("C17", "a closed chain was rejected", chain=chain, how=how))
                elif not closed and out == "accepted":
                    fails.append(Failure("C17", "an open chain was accepted", chain=chain, how=how))
                elif closed:
                    got = [(float(s.ctrlpoints[0][0]), float(s.ctrlpoints[0][1])) for s in J.segments]
                    want = [tuple(map(float, PTS4[a - 1])) for a, _ in chain]
                    if got != want:
                        fails.append(Failure("C17", "vertex cycle differs from the chain", chain=chain, how=how, got=got))
                    segs = J.segments
                    if any(segs[k].ctrlpoints[-1] is not segs[(k + 1) % len(segs)].ctrlpoints[0] for k in range(len(segs))):
                        fails.append(Failure("C17", "consecutive segments do not share the junction point", chain=chain, how=how))
        # non-curve arguments
        for bad, fn in (("abc", sp.JordanCurve.from_vertices), ("abc", sp.JordanCurve.from_ctrlpoints), ([1, 2, 3], sp.JordanCurve.from_segments),
                        (["ab", "cd"], sp.JordanCurve.from_segments), ([(0, 0), "x", (1, 1)], sp.JordanCurve.from_vertices)):
            try:
                fn(bad)
                fails.append(Failure("C17", "a non-curve argument was accepted", arg=repr(bad), fn=fn.__name__))
            except BaseException:  # noqa
                pass
        return {"universe": "chains", "real": "%s-deg%d" % (numtype, deg), "case": "ch:%d-%d" % (idxs[0], idxs[-1]), "row": None, "fails": [f.as_dict() for f in fails],
                "stats": {"constructions": n}, "wall": time.time() - t0, "steps": [["from_segments/from_ctrlpoints", d["chains"][idxs[0]]["chain"]]], "machinery": None}
    except BaseException:  # noqa
        return {"universe": "chains", "real": "?", "case": "ch", "fails": [], "stats": {}, "wall": time.time() - t0, "machinery": traceback.format_exc()}


@guarded
def ctors_case(job, t0):
    """the four constructors on every loop of a region agree"""
    import pynurbs
    uname, rname, reg, opts = job
    st, real, w = _w(uname, rname)
    sp = w.sp
    fails = []
    nl = 0
    for lp in st.loops(reg):
        for rot in (0, 1 + len(lp) // 2):
            nl += 1
            ctrl = [[real.npt(p) for p in c] for c in real.loop_ctrl(lp, rot=rot)]
            built = {}
            try:
                built["ctrlpoints"] = sp.JordanCurve.from_ctrlpoints(ctrl)
                built["segments"] = sp.JordanCurve.from_segments([sp.PlanarCurve(c) for c in ctrl])
                if all(len(c) == 2 for c in ctrl):
                    built["vertices"] = sp.JordanCurve.from_vertices([c[0] for c in ctrl])
                degs = {len(c) - 1 for c in ctrl}
                if len(degs) == 1 and real.numtype == "float":
                    p = degs.pop()
                    n = len(ctrl)
                    knots = [0.0] * (p + 1)
                    for k in range(1, n):
                        knots += [k / n] * p
                    knots += [1.0] * (p + 1)
                    pts = [sp.Point2D(ctrl[0][0])]
                    for c in ctrl:
                        pts += [sp.Point2D(q) for q in c[1:]]
                    curve = pynurbs.Curve(knots, pts)
                    built["full_curve"] = sp.JordanCurve.from_full_curve(curve)
            except BaseException as ex:  # noqa
                fails.append(Failure("C17", "a constructor raised on a valid description", exc=repr(ex), tb=traceback.format_exc(limit=-2), loop=lp, rot=rot, built=sorted(built)))
                continue
            names = sorted(built)
            ref = built[names[0]]
            T = None
            exp_area = None
            for nm in names:
                J = built[nm]
                verts = [(float(v[0]), float(v[1])) for v in J.vertices]
                want = []
                for c in ctrl:
                    want += [(float(q[0]), float(q[1])) for q in c[:-1]]
                if len(verts) != len(want) or any(abs(a[0] - b[0]) + abs(a[1] - b[1]) > 1e-9 * max(1, real.size) for a, b in zip(verts, want)):
                    fails.append(Failure("C17", "vertices are not each control point once, in order", how=nm, loop=lp, got=verts[:6], expected=want[:6]))
                b = J.box()
                for seg in J.segments:
                    for k in range(11):
                        q = seg(k / 10 if real.numtype == "float" else F(k, 10))
                        if not (q in b):
                            fails.append(Failure("C17", "box() does not enclose a point of the curve", how=nm, loop=lp))
                            break
                for other in names:
                    try:
                        eq = J == built[other]
                    except BaseException as ex:  # noqa
                        eq = repr(ex)
                    if eq is not True:
                        fails.append(Failure("C17", "two constructors give curves that are not ==", a=nm, b=other, got=repr(eq), loop=lp))
                if abs(float(J) - float(ref)) > 1e-9 * max(1.0, abs(float(ref))):
                    fails.append(Failure("C17", "signed length differs between constructors", a=nm, loop=lp))
                ar = sp.IntegrateJordan.area(J)
                # orientation: the specification's loops have the region on their left, so a loop is
                # counter-clockwise iff the signed area of its image is positive
                if (float(J) > 0) != (float(ar) > 0):
                    fails.append(Failure("C17", "sign of float(curve) is not the orientation", how=nm, loop=lp))
                if abs(float(ar) - float(sp.IntegrateJordan.area(ref))) > 1e-9 * max(1.0, abs(float(ar))):
                    fails.append(Failure("C17", "area differs between constructors", a=nm, loop=lp))
            # in-place invert after the signed length was read: the sign must flip
            K = built[names[-1]]
            f0 = float(K)
            K.invert()
            if not (float(K) == -f0 or abs(float(K) + f0) <= 1e-9 * abs(f0)):
                fails.append(Failure("C17", "float(curve) keeps its sign after invert()", before=f0, after=float(K), loop=lp))
            K.invert()
            # the shape on the loop's left: the loop alone is ccw iff it is an outer boundary
            S = sp.SimpleShape(ref)
            inside = w.project_region(S)[0]
            if (float(ref) > 0) != (not (inside & 1)):
                fails.append(Failure("C17", "orientation sign disagrees with the side the curve encloses", loop=lp))
    r = _result(uname, rname, "ct:%d" % reg, fails, t0, [["from_vertices/from_segments/from_ctrlpoints/from_full_curve", reg, nl]])
    r["stats"] = {"loops": nl}
    return r


# ------------------------------------------------------------------ C16
SIZE_VALUES = {"posint": [1, 3], "posfrac": [F(3, 2), F(7, 3)], "posfloat": [0.75, 2.5], "zero": [0, 0.0], "neg": [-1, -0.5, F(-1, 2)], "str": ["a"], "none": [None]}
CENTRE_VALUES = {"origin": [(0, 0)], "int": [(3, -2)], "frac": [(F(1, 2), F(-3, 4))], "float": [(0.25, -1.5)], "bad": ["x", (1, 2, 3), None]}
COUNT_VALUES = {"1": 1, "2": 2, "3": 3, "4": 4, "5": 5, "7": 7, "16": 16, "64": 64, "3.0": 3.0, "str": "5"}


def prims_case(job):
    import math
    t0 = time.time()
    table_path, idxs, opts = job
    try:
        sp = world.shapepy()
        P = sp.Primitive
        d = json.load(open(table_path))
        fails = []
        ncalls = 0
        for ix in idxs:
            c = d["cases"][ix]
            f, res = c["f"], c["res"]
            for size in SIZE_VALUES[c["size"]]:
                for centre in CENTRE_VALUES[c["centre"]]:
                    cnt = COUNT_VALUES[c["count"]]
                    call = {"square": lambda: P.square(size, centre), "triangle": lambda: P.triangle(size, centre),
                            "regular": lambda: P.regular_polygon(cnt, size, centre), "circle": lambda: P.circle(size, centre, cnt)}[f]
                    ncalls += 1
                    try:
                        S = call()
                        out = "ok"
                    except ValueError:
                        out = "ValueError"
                    except BaseException as ex:  # noqa
                        out = "raised " + type(ex).__name__
                    what = dict(factory=f, size=repr(size), centre=repr(centre), count=repr(cnt))
                    if out != res["out"]:
                        fails.append(Failure("C16", "outcome differs from the decision table", expected=res["out"], got=out, **what))
                        continue
                    if out != "ok":
                        continue
                    J = S.jordans[0]
                    cx, cy = centre
                    s = size
                    if kind_of(S) != "S" or not float(J) > 0 or not float(S) > 0:
                        fails.append(Failure("C16", "not a counter-clockwise simple shape", **what))
                        continue
                    if len(J.segments) != res["nsegs"] or any(sg.degree != res["degree"] for sg in J.segments):
                        fails.append(Failure("C16", "number or degree of segments", expected=(res["nsegs"], res["degree"]), got=[sg.degree for sg in J.segments], **what))
                    verts = [(v[0], v[1]) for v in (sg.ctrlpoints[0] for sg in J.segments)]
                    if f == "square":
                        h = F(s) / 2 if not isinstance(s, float) else s / 2
                        want = [(cx + h, cy + h), (cx - h, cy + h), (cx - h, cy - h), (cx + h, cy - h)]
                        area = s * s
                    elif f == "triangle":
                        want = [(cx, cy), (cx + s, cy), (cx, cy + s)]
                        area = s * s / 2 if isinstance(s, float) else F(s) * s / 2
                    elif f == "regular":
                        n = cnt
                        if n == 4:
                            want = [(cx + s, cy), (cx, cy + s), (cx - s, cy), (cx, cy - s)]
                        else:
                            want = [(float(cx) + float(s) * math.cos(math.tau * k / n), float(cy) + float(s) * math.sin(math.tau * k / n)) for k in range(n)]
                        area = 0.5 * n * float(s) ** 2 * math.sin(math.tau / n) if n != 4 else 2 * s * s
                    else:
                        n = cnt
                        want = [(float(cx) + float(s) * math.cos(math.tau * k / n), float(cy) + float(s) * math.sin(math.tau * k / n)) for k in range(n)]
                        area = None
                    if res["exact"]:
                        okv = len(verts) == len(want) and all(a[0] == b[0] and a[1] == b[1] for a, b in zip(verts, want))
                        okv = okv and not any(isinstance(c_, float) for a in verts for c_ in a)
                    else:
                        okv = len(verts) == len(want) and all(abs(float(a[0]) - float(b[0])) + abs(float(a[1]) - float(b[1])) <= 1e-9 * (1 + abs(float(s))) for a, b in zip(verts, want))
                    if not okv:
                        fails.append(Failure("C16", "vertices differ from the documented geometry", expected=want[:4], got=verts[:4], exact=res["exact"], **what))
                    A = sp.IntegrateShape.area(S)
                    if area is not None:
                        oka = (A == area) if res["exact"] else abs(float(A) - float(area)) <= 1e-9 * max(1.0, float(area))
                        if not oka:
                            fails.append(Failure("C16", "area differs from the closed form", expected=area, got=A, **what))
                    else:
                        r_ = float(s)
                        lo, hi = 0.5 * n * r_ * r_ * math.sin(math.tau / n), n * r_ * r_ * math.tan(math.pi / n)
                        if not (lo <= float(A) <= hi and float(A) >= math.pi * r_ * r_ * (1 - 1e-12)):
                            fails.append(Failure("C16", "circle area outside [inscribed, circumscribed] polygon areas", got=float(A), lo=lo, hi=hi, **what))
                        band = r_ * (1 + 1 / math.cos(math.pi / n)) / 2
                        for sg in J.segments:
                            for k in range(0, 9):
                                q = sg(k / 8)
                                dist = math.hypot(float(q[0]) - float(cx), float(q[1]) - float(cy))
                                if not (r_ * (1 - 1e-9) <= dist <= band * (1 + 1e-9)):
                                    fails.append(Failure("C16", "circle leaves the quadratic-approximation band", dist=dist, r=r_, band=band, **what))
                                    break
                    big = 10 * float(s) + 5
                    if not ((cx, cy) in S) or ((float(cx) + big, float(cy) + big) in S):
                        fails.append(Failure("C16", "centre not contained or far point contained", **what))
        # every number of sides: exactly nsides vertices on the circle, no zero-length side
        if opts.get("sweep"):
            for n in range(3, 400):
                S = P.regular_polygon(n, 2.5, (1, -1))
                vs = [sg.ctrlpoints[0] for sg in S.jordans[0].segments]
                if len(vs) != n:
                    fails.append(Failure("C16", "regular_polygon does not have nsides vertices", nsides=n, got=len(vs)))
                    continue
                for k, v in enumerate(vs):
                    ex = (1 + 2.5 * math.cos(math.tau * k / n), -1 + 2.5 * math.sin(math.tau * k / n))
                    if abs(float(v[0]) - ex[0]) + abs(float(v[1]) - ex[1]) > 1e-9:
                        fails.append(Failure("C16", "regular_polygon vertex off the closed form", nsides=n, k=k))
                        break
        # Primitive.polygon keeps the given vertices: later in-place changes of the shape must not
        # reach the caller's list nor another polygon built from the same Point2D objects
        pts = [sp.Point2D(0, 0), sp.Point2D(4, 0), sp.Point2D(4, 3), sp.Point2D(0, 3)]
        S1, S2 = P.polygon(pts), P.polygon(pts)
        S1.move(10, 20)
        if [(float(q[0]), float(q[1])) for q in pts] != [(0, 0), (4, 0), (4, 3), (0, 3)]:
            fails.append(Failure("C16", "moving a polygon changed the caller's vertex list"))
        if [(float(v[0]), float(v[1])) for v in S2.jordans[0].vertices] != [(0, 0), (4, 0), (4, 3), (0, 3)] or not ((1, 1) in S2):
            fails.append(Failure("C16", "moving a polygon changed another polygon built from the same points"))
        # circle area converges monotonically to pi r^2
        areas = [float(sp.IntegrateShape.area(P.circle(1.5, (0.5, -1), n))) for n in (4, 5, 8, 16, 64, 256)]
        if not all(a > b for a, b in zip(areas, areas[1:])) or abs(areas[-1] - math.pi * 2.25) > 1e-6 * math.pi * 2.25 * 10:
            fails.append(Failure("C16", "circle area does not decrease to pi r^2", areas=areas))
        # polygon keeps the vertex list and its orientation
        for vs in ([(0, 0), (4, 0), (5, 2), (1, 3)], [(F(1, 2), 0), (3, F(1, 3)), (2, 4)], [(0.5, 0.25), (2.5, 0.75), (1.0, 3.0), (-0.5, 1.5), (-1.0, 0.5)]):
            for order in (vs, vs[::-1]):
                S = P.polygon(order)
                got = [(v[0], v[1]) for v in S.jordans[0].vertices]
                sh = sum(order[k][0] * order[(k + 1) % len(order)][1] - order[(k + 1) % len(order)][0] * order[k][1] for k in range(len(order))) / 2
                if [(float(a), float(b)) for a, b in got] != [(float(a), float(b)) for a, b in order]:
                    fails.append(Failure("C16", "polygon does not keep the given vertices in order", given=order, got=got))
                A = sp.IntegrateShape.area(S)
                if abs(float(A) - float(sh)) > 1e-12 * abs(float(sh)) or (float(S.jordans[0]) > 0) != (sh > 0):
                    fails.append(Failure("C16", "polygon orientation/area differs from the vertex list", given=order, area=A, shoelace=sh))
        return {"universe": "prims", "real": "classes", "case": "pr:%d-%d" % (idxs[0], idxs[-1]), "row": None, "fails": [f.as_dict() for f in fails],
                "stats": {"calls": ncalls}, "wall": time.time() - t0, "steps": [["factory calls", d["cases"][idxs[0]]]], "machinery": None}
    except BaseException:  # noqa
        return {"universe": "prims", "real": "?", "case": "pr", "fails": [], "stats": {}, "wall": time.time() - t0, "machinery": traceback.format_exc()}


# ------------------------------------------------------------------ C20
CODES = {1: [2], 2: [3, 3], 3: [4, 4, 4]}


@guarded
def plot_case(job, t0):
    import matplotlib
    matplotlib.use("Agg")
    from matplotlib import pyplot
    uname, rname, reg, opts = job
    st, real, w = _w(uname, rname)
    sp = w.sp
    fails = []
    obj = w.canonical(reg)
    if opts.get("redundant") and kind_of(obj) in "SCD":
        # a boundary with redundant vertices (as left by an operator): plotting must draw them
        # segment by segment and must not clean the shape
        for j in obj.jordans:
            idx = list(range(0, len(j.segments), 2))
            j.split(idx, [0.5 if real.numtype == "float" else F(1, 2)] * len(idx))
    snap = w.snapshot(obj)
    plotter = sp.ShapePloter()
    try:
        plotter.plot(obj)
        ax = plotter.gca()
        patches = list(ax.patches)
        plan = st.row(reg)["plot"] if reg not in (0, st.u.full) else {"fills": 0, "outlines": 0}
        fills = [p for p in patches if p.get_facecolor()[3] != 0]
        outl = [p for p in patches if p.get_facecolor()[3] == 0]
        if len(fills) != plan["fills"] or len(outl) != plan["outlines"]:
            fails.append(Failure("C20", "number of filled paths / outlines differs from the plan", expected=(plan["fills"], plan["outlines"]), got=(len(fills), len(outl)), reg=reg))
        if kind_of(obj) in "SCD":
            comps = obj.subshapes if kind_of(obj) == "D" else [obj]
            exp_fill = []
            for comp in comps:
                vs, cs = [], []
                for j in comp.jordans:
                    first = j.segments[0].ctrlpoints[0]
                    vs.append((float(first[0]), float(first[1])))
                    cs.append(1)
                    for sg in j.segments:
                        for q in sg.ctrlpoints[1:]:
                            vs.append((float(q[0]), float(q[1])))
                        cs += CODES[sg.degree]
                    vs.append(vs[0] if False else (float(vs[0][0]), float(vs[0][1])))
                    cs.append(79)
                exp_fill.append((vs, cs, float(comp) > 0))
            for (vs, cs, pos), p in zip(exp_fill, fills):
                path = p.get_path()
                codes = [int(c) for c in path.codes]
                if codes != cs:
                    fails.append(Failure("C20", "codes of a filled path do not retrace the boundary segment by segment", expected=cs, got=codes, reg=reg))
                    continue
                gv = [tuple(v) for v in path.vertices]
                # every vertex but the closing ones must be the control points in order
                bad = [k for k, (a, b) in enumerate(zip(gv, vs)) if cs[k] != 79 and abs(a[0] - b[0]) + abs(a[1] - b[1]) > 1e-9 * max(1, real.size)]
                if bad:
                    fails.append(Failure("C20", "vertices of a filled path differ from the control points", index=bad[:3], reg=reg))
                fc = p.get_facecolor()
                if pos and not (fc[1] > 0.9 and fc[0] < 0.1):  # lime
                    fails.append(Failure("C20", "bounded component not filled", reg=reg, color=tuple(fc)))
                if not pos and not (fc[0] > 0.99 and fc[1] > 0.99 and fc[2] > 0.99):
                    fails.append(Failure("C20", "unbounded component not drawn as a hole in the background", reg=reg, color=tuple(fc)))
            jl = [j for comp in comps for j in comp.jordans]
            for j, p in zip(jl, outl):
                path = p.get_path()
                cs = [1] + [c for sg in j.segments for c in CODES[sg.degree]] + [79]
                codes = [int(c) for c in path.codes]
                if codes != cs:
                    fails.append(Failure("C20", "codes of an outline do not retrace the curve segment by segment", expected=cs, got=codes, reg=reg))
                    continue
                vs = [j.segments[0].ctrlpoints[0]] + [q for sg in j.segments for q in sg.ctrlpoints[1:]]
                gv = [tuple(v) for v in path.vertices]
                bad = [k for k, (a, b) in enumerate(zip(gv, vs)) if abs(a[0] - float(b[0])) + abs(a[1] - float(b[1])) > 2e-6]
                if bad:
                    fails.append(Failure("C20", "vertices of an outline differ from the control points", index=bad[:3], reg=reg))
            # the plan of the specification: one sub-path per loop with one group per corner
            ncorn = sorted(c[1] for c in plan["corners"])
            if not opts.get("redundant") and sorted(len(j.segments) for j in jl) != ncorn:
                fails.append(Failure("C20", "segments per drawn curve differ from the corners of the loops", expected=ncorn, reg=reg))
        else:
            if patches:
                fails.append(Failure("C20", "Empty/Whole drew a path", reg=reg))
            if kind_of(obj) == "W":
                bg = ax.get_facecolor()
                if not (bg[1] > 0.99 and bg[0] < 0.8):
                    fails.append(Failure("C20", "Whole did not colour the background", color=tuple(bg)))
        if w.snapshot(obj) != snap:
            fails.append(Failure("C20", "plotting modified the shape", reg=reg))
    except BaseException as ex:  # noqa
        fails.append(Failure("C20", "plot raised", exc=repr(ex), tb=traceback.format_exc(limit=-3), reg=reg))
    finally:
        pyplot.close("all")
    return _result(uname, rname, "plot:%d" % reg, fails, t0, [["MakeRegion", [1, reg]], ["Plot", [1]]])


# ------------------------------------------------------------------ C09 gallery
GALLERY = {
    "dip": [[(0, 0), (2, -1)], [(2, -1), (4, 0)], [(4, 0), (4, 4)], [(4, 4), (2, -1), (0, 4)], [(0, 4), (0, 0)]],   # a control point coincides with a vertex
    "lens": [[(0, 0), (2, -2), (4, 0)], [(4, 0), (2, 2), (0, 0)]],
    "cap": [[(0, 0), (3, 0)], [(3, 0), (3, 2), (0, 2), (0, 0)]],                                                     # cubic whose last control point value repeats the start
    "tri": [[(1, 1), (5, 1)], [(5, 1), (1, 4)], [(1, 4), (1, 1)]],
}


def gallery_case(job):
    """in-place transformations at the level of control points, on hand-made curved shapes
    (including control points that coincide with vertices): every control point must be
    mapped exactly once by the affine map of the frame word"""
    t0 = time.time()
    name, numtype, word, opts = job
    try:
        sp = world.shapepy()
        conv = {"int": int, "frac": F, "float": float}[numtype]
        ctrl = [[(conv(x), conv(y)) for x, y in seg] for seg in GALLERY[name]]
        S = sp.SimpleShape(sp.JordanCurve.from_ctrlpoints(ctrl))
        J = S.jordans[0]
        fails = []
        orig = [[(q[0], q[1]) for q in sg.ctrlpoints] for sg in J.segments]
        a0 = sp.IntegrateShape.area(S)
        float(S), (0.5, 0.5) in S                      # warm caches
        gens = realise.gen_table("frac" if numtype != "float" else "float")
        T = realise.Affine()
        exact = numtype != "float"
        for g in word:
            meth, margs, aff = gens[g]
            r = getattr(S, meth)(*margs)
            if r is not S:
                fails.append(Failure("C09", "transformation did not return the same object", gen=g, shape=name))
            T = T.then(aff)
            exact = exact and g in realise.EXACT_GENS
            got = [[(q[0], q[1]) for q in sg.ctrlpoints] for sg in J.segments]
            for sg0, sg1 in zip(orig, got):
                for p0, p1 in zip(sg0, sg1):
                    ex = T(F(p0[0]) if not isinstance(p0[0], float) else F(p0[0]), F(p0[1]) if not isinstance(p0[1], float) else F(p0[1]))
                    if exact:
                        ok = p1[0] == ex[0] and p1[1] == ex[1] and not isinstance(p1[0], float)
                    else:
                        ok = abs(float(p1[0]) - float(ex[0])) + abs(float(p1[1]) - float(ex[1])) <= 1e-9 * (1 + abs(float(ex[0])) + abs(float(ex[1])))
                    if not ok:
                        fails.append(Failure("C09", "a control point is not the image of the original under the affine map", shape=name, word=word, upto=g, original=p0, expected=ex, got=p1))
                        break
                if fails:
                    break
            a1 = sp.IntegrateShape.area(S)
            exa = F(a0) * T.det() if not isinstance(a0, float) else a0 * float(T.det())
            if (exact and a1 != exa) or abs(float(a1) - float(exa)) > 1e-9 * max(1.0, abs(float(exa))):
                fails.append(Failure("C09", "area is not |det T| times the original area", shape=name, word=word, upto=g, expected=exa, got=a1))
            # every control point object exactly once in `vertices`
            ids = []
            for sg in J.segments:
                for q in sg.ctrlpoints:
                    if id(q) not in ids:
                        ids.append(id(q))
            if [id(v) for v in J.vertices] != ids:
                fails.append(Failure("C09", "vertices is not each control point object once, in order", shape=name))
            if fails:
                break
        if not fails and T.is_identity():
            S0 = sp.SimpleShape(sp.JordanCurve.from_ctrlpoints(ctrl))
            try:
                eq = S == S0
            except BaseException as ex:  # noqa
                eq = repr(ex)
            if eq is not True:
                fails.append(Failure("C09", "the inverse transformation did not restore a shape == the original", shape=name, word=word, got=repr(eq)))
        return {"universe": "gallery", "real": numtype, "case": "g:%s:%s" % (name, "".join(word)), "row": None, "fails": [f.as_dict() for f in fails], "stats": {},
                "wall": time.time() - t0, "steps": [["from_ctrlpoints", name]] + [["Transform", g] for g in word], "machinery": None}
    except BaseException:  # noqa
        return {"universe": "gallery", "real": numtype, "case": "g:%s" % name, "fails": [], "stats": {}, "wall": time.time() - t0, "machinery": traceback.format_exc()}


# ------------------------------------------------------------------ C02 gallery
def gallery_points_case(job):
    """point membership on hand-made curved shapes with closed-form ground truth, probing
    the places a grid realisation never hits: points exactly on chords, on the borders of the
    control boxes of curved segments, on the axis of symmetry"""
    t0 = time.time()
    name, numtype, opts = job
    try:
        sp = world.shapepy()
        conv = {"int": int, "frac": F, "float": float}[numtype]
        fails = []
        if name == "lens":
            # two quadratic arcs between (0,0) and (4,0): y = +- x(4-x)/4
            ctrl = [[(0, 0), (2, -2), (4, 0)], [(4, 0), (2, 2), (0, 0)]]
            inside = lambda x, y: 0 < x < 4 and abs(y) < x * (4 - x) / 4
            onb = lambda x, y: 0 <= x <= 4 and abs(y) == x * (4 - x) / 4
        elif name == "stadium":
            # rectangle [0,4]x[0,2] with cubic caps bulging to x = -1.5 and x = 5.5 at mid height
            ctrl = [[(0, 0), (4, 0)], [(4, 0), (6, 0), (6, 2), (4, 2)], [(4, 2), (0, 2)], [(0, 2), (-2, 2), (-2, 0), (0, 0)]]
            def capx(y):   # x-extent of the right cap at height y: x = 4 + 6 t (1-t) with y = 2 (3t^2 - 2t^3)... solved numerically below
                return None
            inside = None
            onb = None
        else:
            raise ValueError(name)
        S = sp.SimpleShape(sp.JordanCurve.from_ctrlpoints([[(conv(x), conv(y)) for x, y in seg] for seg in ctrl]))
        pts = []
        if name == "lens":
            for i in range(-2, 19):
                for j in range(-9, 10):
                    pts.append((F(i, 4), F(j, 8)))
            pts += [(F(1, 3), 0), (F(11, 3), 0), (2, F(999, 1000)), (2, F(-999, 1000)), (2, F(1001, 1000)), (F(1, 1000), 0), (F(3999, 1000), 0)]
            for (x, y) in pts:
                if onb(x, y):
                    want = {True: True, False: False}
                elif inside(x, y):
                    want = {True: True, False: True}
                else:
                    want = {True: False, False: False}
                q = (float(x), float(y)) if numtype == "float" else (x, y)
                for flag in (True, False):
                    try:
                        got = S.contains_point(q, flag)
                    except BaseException as ex:  # noqa
                        fails.append(Failure("C02", "point query raised", exc=repr(ex), point=(x, y), shape=name))
                        continue
                    if got is not want[flag]:
                        fails.append(Failure("C02", "point membership wrong", shape=name, point=(x, y), boundary=flag, expected=want[flag], got=repr(got)))
                # the complement answers the opposite off the boundary
                if not onb(x, y):
                    try:
                        if ((q in (~S)) is not (not inside(x, y))):
                            fails.append(Failure("C02", "point membership wrong in the complement", shape=name, point=(x, y)))
                    except BaseException as ex:  # noqa
                        fails.append(Failure("C02", "point query raised", exc=repr(ex), point=(x, y), shape=name))
                if len(fails) > 6:
                    break
        else:
            # stadium: ground truth by symmetric bisection on the cap curve x(t) = 4 + 6t(1-t), y(t) = 6t^2 - 4t^3
            import math
            def cap_extent(y):
                lo, hi = 0.0, 1.0
                for _ in range(80):
                    mid = (lo + hi) / 2
                    if 6 * mid * mid - 4 * mid ** 3 < y:
                        lo = mid
                    else:
                        hi = mid
                t = (lo + hi) / 2
                return 6 * t * (1 - t)
            for i in range(-10, 27):
                for j in range(-2, 11):
                    x, y = i / 4, j / 4
                    if not (0 < y < 2):
                        if y < 0 or y > 2:
                            want = False
                        else:
                            continue      # on the straight edges or their extension: boundary cases skipped
                    else:
                        e = cap_extent(y)
                        if abs(x - (4 + e)) < 1e-6 or abs(x - (-e)) < 1e-6:
                            continue
                        want = -e < x < 4 + e
                    try:
                        got = (x, y) in S
                    except BaseException as ex:  # noqa
                        fails.append(Failure("C02", "point query raised", exc=repr(ex), point=(x, y), shape=name))
                        continue
                    if got is not want:
                        fails.append(Failure("C02", "point membership wrong", shape=name, point=(x, y), expected=want, got=repr(got)))
                    if len(fails) > 6:
                        break
        return {"universe": "gallery", "real": numtype, "case": "gp:%s" % name, "row": None, "fails": [f.as_dict() for f in fails], "stats": {}, "wall": time.time() - t0,
                "steps": [["from_ctrlpoints", name], ["QPoint*", "grid of rational points incl. chord and control-box borders"]], "machinery": None}
    except BaseException:  # noqa
        return {"universe": "gallery", "real": numtype, "case": "gp:%s" % name, "fails": [], "stats": {}, "wall": time.time() - t0, "machinery": traceback.format_exc()}



# ------------------------------------------------------------------ C14 gallery
def inter_gallery_case(job):
    """crossings at irrational parameters with closed-form ground truth: the parabola arc
    (0,0),(2,4),(4,0)  [y = x(4-x)/... : x = 4t, y = 8t(1-t)]  cut by the bottom edge y = h of a
    rectangle, for rational h: u = (1 -+ sqrt(1 - h/2)) / 2"""
    import math
    t0 = time.time()
    numtype, hs, opts = job
    try:
        sp = world.shapepy()
        conv = {"frac": F, "float": float, "int": int}[numtype]
        fails = []
        arc = sp.JordanCurve.from_ctrlpoints([[(conv(0), conv(0)), (conv(2), conv(4)), (conv(4), conv(0))], [(conv(4), conv(0)), (conv(0), conv(0))]])
        for h in hs:
            hh = F(h) if numtype != "float" else float(h)
            rect = sp.JordanCurve.from_vertices([(conv(-1), hh), (conv(5), hh), (conv(5), conv(5)), (conv(-1), conv(5))])
            got = arc.intersection(rect)
            exp_u = sorted([(1 - math.sqrt(1 - float(h) / 2)) / 2, (1 + math.sqrt(1 - float(h) / 2)) / 2])
            gu = sorted(float(u) for (a, b, u, v) in got if u is not None and a == 0 and b == 0)
            if len(gu) != 2 or any(abs(x - y) > 1e-6 for x, y in zip(gu, exp_u)):
                fails.append(Failure("C14", "crossings of an arc with a line at irrational parameters differ from the closed form", h=str(h), expected=exp_u, got=gu, numtype=numtype))
            gv = sorted(float(v) for (a, b, u, v) in got if u is not None and a == 0 and b == 0)
            exp_v = sorted([(4 * x + 1) / 6 for x in exp_u])
            if len(gv) == 2 and any(abs(x - y) > 1e-6 for x, y in zip(gv, exp_v)):
                fails.append(Failure("C14", "parameters on the line differ from the closed form", h=str(h), expected=exp_v, got=gv))
            sw = rect.intersection(arc)
            if sorted((b, a) for (a, b, u, v) in sw if u is not None) != sorted((a, b) for (a, b, u, v) in got if u is not None):
                fails.append(Failure("C14", "swapping the operands does not swap the roles", h=str(h)))
            if len(fails) > 4:
                break
        return {"universe": "gallery", "real": numtype, "case": "ig:%s" % numtype, "row": None, "fails": [f.as_dict() for f in fails], "stats": {}, "wall": time.time() - t0,
                "steps": [["arc x rectangle edge at heights", [str(h) for h in hs]]], "machinery": None}
    except BaseException:  # noqa
        return {"universe": "gallery", "real": numtype, "case": "ig", "fails": [], "stats": {}, "wall": time.time() - t0, "machinery": traceback.format_exc()}


# ------------------------------------------------------------------ C11 invalid arguments
@guarded
def badargs_case(job, t0):
    """in-place transformations with invalid arguments must raise and leave the shape unchanged
    (every combination of a valid and an invalid argument, shapes of every kind)"""
    uname, rname, reg, opts = job
    st, real, w = _w(uname, rname)
    fails = []
    bad_values = ["a", None, [1], (1, 2), {}]
    calls = []
    for b in bad_values:
        calls += [("move", (b, 1)), ("move", (1, b)), ("move", (b,)), ("scale", (b, 2)), ("scale", (3, b)), ("rotate", (b,)), ("rotate", (b, True))]
    calls += [("move", (1, 2, 3)), ("scale", (2,)), ("scale", ())]
    n = 0
    for meth, args in calls:
        if meth == "move" and args in (((1, 2),), ([1],)) :
            continue
        obj = w.canonical(reg)
        float(obj)
        snap = w.snapshot(obj)
        try:
            getattr(obj, meth)(*args)
            # move((1, 2)) style calls are valid spellings of a point: accept when nothing is malformed
            raised = False
        except BaseException:  # noqa
            raised = True
        n += 1
        if not raised:
            ok_spelling = meth == "move" and len(args) == 1 and isinstance(args[0], (tuple, list)) and len(args[0]) == 2
            if not ok_spelling:
                fails.append(Failure("C11", "invalid arguments accepted by an in-place transformation", call=meth, args=repr(args), reg=reg))
            continue
        if w.snapshot(obj) != snap:
            fails.append(Failure("C11", "a rejected in-place transformation changed the shape", call=meth, args=repr(args), reg=reg))
        else:
            ff = w.compare(obj, {"reg": reg, "frame": ()}, deep=False, tags={"region": "C11", "kind": "C11"})
            fails.extend(ff)
    r = _result(uname, rname, "bad:%d" % reg, fails, t0, [["MakeRegion", [1, reg]], ["BadTransform*", n]])
    r["stats"] = {"calls": n}
    return r
