"""Re-run replay jobs in a fresh interpreter (other PYTHONHASHSEED, cold or
pre-warmed module-level caches) and dump the observation logs (C10)."""
import json
import sys

from . import replay, tlaparse  # noqa


def main():
    jobs_path, out_path, warm = sys.argv[1], sys.argv[2], sys.argv[3] == "warm"
    jobs = json.load(open(jobs_path))
    if warm:
        # fill the module-level memo tables before anything else runs
        from .world import shapepy
        sp = shapepy()
        from shapepy.curve import Math, Derivate, Operations
        for d in range(0, 7):
            Math.bezier_caract_matrix(d)
            if d >= 1:
                Derivate.non_rational_bezier(d, 1)
            for t in range(1, d):
                Operations.degree_decrease(d, t)
        c = sp.Primitive.circle()
        (0.1, 0.2) in c
        float(c)
    out = []
    for uname, rname, case, opts in jobs:
        case["steps"] = [(n, _tup(a), _state(s)) for n, a, s in case["steps"]]
        r = replay.run_case((uname, rname, case, opts))
        out.append({"case": r["case"], "obs": r.get("obs"), "fails": [(f["property"], f["what"], f["step"]) for f in r["fails"]], "machinery": r.get("machinery")})
    json.dump(out, open(out_path, "w"))


def _tup(x):
    if isinstance(x, list):
        return tuple(_tup(v) for v in x)
    return x


def _state(s):
    return {"heap": tuple(_rec(h) for h in s["heap"]), "regs": tuple(s["regs"]), "obs": s["obs"]}


def _rec(h):
    return {"reg": h["reg"], "frame": tuple(h["frame"]), "splits": frozenset(tuple(p) for p in h["splits"]), "segk": h["segk"], "warm": h["warm"]}


if __name__ == "__main__":
    main()
