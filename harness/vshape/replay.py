"""Spec -> code replay: execute specification behaviours step by step on real
shapepy objects under a realisation and compare, after every action, the
projection of every live object with the specification state (DESIGN.md 5.1)."""
from __future__ import annotations

import copy as _copy
import hashlib
import json
import os
import signal
import time
import traceback
from fractions import Fraction as F

from . import realise, spectab, world
from .world import Failure, kind_of

STEP_TIMEOUT = int(os.environ.get("VERIF_STEP_TIMEOUT", "600"))   # a hang, not a slow machine: 100x the slowest legitimate step


class StepTimeout(BaseException):
    pass


def _alarm(signum, frame):
    raise StepTimeout()


def heap_rec(state, oid):
    return state["heap"][oid - 1]


def case_id(case):
    h = hashlib.sha256(
        json.dumps([[n, world._js(a)] for n, a, _ in case["steps"]], sort_keys=True).encode()
    ).hexdigest()[:10]
    return "%s:%s" % (case.get("label", "b"), h)


BAD_ARGS = {
    "move": [("a", 1), (None,), (1, 2, 3)],
    "scale": [("a", 1), (2, None), (2, "b")],
    "rotate": [("x",), (None,)],
}

OPFUN = {
    "or": lambda a, b: a | b,
    "and": lambda a, b: a & b,
    "sub": lambda a, b: a - b,
    "xor": lambda a, b: a ^ b,
    "add": lambda a, b: a + b,
    "mul": lambda a, b: a * b,
}


class Replayer:
    def __init__(self, st, real, *, wlevel=1, check_c10=True, deep_all=False, record_obs=False, probe=True):
        self.st = st
        self.real = real
        self.w = world.World(st, real, wlevel=wlevel, probe=probe and not real.name.startswith("sim-mmu"))
        self.regs = {}
        self.check_c10 = check_c10
        self.deep_all = deep_all
        self.record_obs = record_obs
        self.obs = []
        self.inexact = {}  # id(obj) -> obj : objects whose coordinates went through a rotation
        self.fails = []
        self.stats = {"steps": 0, "compares": 0, "raised_allowed": 0}

    # -------------------------------------------------------------------
    def fail(self, step, f: Failure):
        d = f.as_dict()
        d["step"] = step
        self.fails.append(d)

    def run(self, case):
        steps = case["steps"]
        prev = None
        old = signal.signal(signal.SIGALRM, _alarm)
        try:
            for k, (name, args, state) in enumerate(steps):
                if name == "SInit":
                    prev = state
                    continue
                signal.alarm(STEP_TIMEOUT)
                try:
                    cont = self.step(k, name, args, prev, state)
                except StepTimeout:
                    self.fail(k, Failure("C01", "step timed out (hang)", action=name, args=args))
                    cont = False
                finally:
                    signal.alarm(0)
                self.stats["steps"] += 1
                prev = state
                if not cont:
                    break
        finally:
            signal.signal(signal.SIGALRM, old)
        return self.fails

    # -------------------------------------------------------------------
    def step(self, k, name, args, pre, post):
        w, sp = self.w, self.w.sp
        regs = self.regs
        snaps = {r: (o, w.snapshot(o)) for r, o in regs.items()}
        touched = set()
        rebound = set()
        result_reg = None
        tags_res = {}
        outcome = None
        allowed_raise = False
        try:
            if name == "MakeAtom":
                dd, ia, neg = args
                rec = heap_rec(post, post["regs"][dd - 1])
                regs[dd] = w.simple_from_loop(self.st.loops(rec["reg"])[0])
                result_reg = dd
                tags_res = {"region": "C16", "kind": "C16", "loops": "C17", "moment": "C04"}
            elif name == "MakeRegion":
                dd, rr = args
                regs[dd] = w.canonical(rr)
                result_reg = dd
                tags_res = {"region": "C19", "kind": "C19", "loops": "C19", "moment": "C19"}
            elif name == "MakeEmpty":
                regs[args[0]] = sp.EmptyShape()
                result_reg = args[0]
            elif name == "MakeWhole":
                regs[args[0]] = sp.WholeShape()
                result_reg = args[0]
            elif name == "Bin":
                op, dd, aa, bb = args
                cls = post["obs"].get("cls", "T")
                ra, rb = heap_rec(pre, pre["regs"][aa - 1])["reg"], heap_rec(pre, pre["regs"][bb - 1])["reg"]
                # C01: must return for transversal operands; the final union of `^` joins
                # touching pieces, which is a different (non-transversal) situation
                allowed_raise = cls != "T" or not (
                    heap_rec(pre, pre["regs"][aa - 1]).get("segk", True)
                    and heap_rec(pre, pre["regs"][bb - 1]).get("segk", True)
                )
                touched |= {aa, bb}
                res = OPFUN[op](regs[aa], regs[bb])
                if id(regs[aa]) in self.inexact or id(regs[bb]) in self.inexact:
                    self.inexact[id(res)] = res
                    # the operands receive the (float) crossing points as new vertices
                    self.inexact[id(regs[aa])] = regs[aa]
                    self.inexact[id(regs[bb])] = regs[bb]
                regs[dd] = res
                result_reg = dd
                tags_res = {"region": "C01", "kind": "C06", "loops": "C06", "moment": "C04", "vertices": "C06"}
            elif name == "Inv":
                dd, aa, how = args
                touched.add(aa)
                src = regs[aa]
                regs[dd] = (~src) if how == "inv" else (-src)
                if id(src) in self.inexact:
                    self.inexact[id(regs[dd])] = regs[dd]
                result_reg = dd
                tags_res = {"region": "C01", "kind": "C06", "loops": "C06", "moment": "C04"}
            elif name == "Copy":
                dd, aa, how = args
                touched.add(aa)
                src = regs[aa]
                regs[dd] = _copy.copy(src) if how == "copy" else _copy.deepcopy(src)
                if id(src) in self.inexact:
                    self.inexact[id(regs[dd])] = regs[dd]
                result_reg = dd
                tags_res = {"region": "C08", "kind": "C08", "loops": "C08", "moment": "C08"}
            elif name == "InvertInPlace":
                (aa,) = args
                r = regs[aa].invert()
                if r is not regs[aa]:
                    self.fail(k, Failure("C08", "invert() did not return the same object"))
                result_reg = aa
                tags_res = {"region": "C08", "kind": "C06", "loops": "C08", "moment": "C04"}
            elif name == "Transform":
                dd, aa, gg = args
                meth, margs, _ = w.gens[gg]
                if gg not in world.EXACT_GENS:
                    self.inexact[id(regs[aa])] = regs[aa]
                rebound.add(dd)
                r = getattr(regs[aa], meth)(*margs)
                if r is not regs[aa]:
                    self.fail(k, Failure("C09", "in-place transformation did not return the same object", gen=gg))
                regs[dd] = regs[aa]
                result_reg = aa
                tags_res = {"region": "C09", "kind": "C09", "loops": "C09", "moment": "C09", "type": "C09", "vertices": "C09"}
                rec = heap_rec(post, post["regs"][aa - 1])
                if tuple(rec.get("frame", ())) == () and not self.st.pinch(rec["reg"]):
                    # the transformations applied so far cancel: a shape equal to the original
                    try:
                        same = regs[aa] == w.canonical(rec["reg"])
                    except StepTimeout:
                        raise
                    except BaseException as ex:  # noqa
                        same = repr(ex)
                    if same is not True:
                        self.fail(k, Failure("C09", "inverse transformation did not restore a shape == the original", got=repr(same), reg=rec["reg"]))
            elif name == "BadTransform":
                aa, what = args
                for bad in BAD_ARGS[what]:
                    try:
                        getattr(regs[aa], what)(*bad)
                        self.fail(k, Failure("C11", "invalid arguments accepted", what=what, args=repr(bad)))
                    except StepTimeout:
                        raise
                    except Exception:
                        pass
                    if w.snapshot(regs[aa]) != snaps[aa][1]:
                        self.fail(k, Failure("C11", "rejected transformation changed the shape", what=what, args=repr(bad)))
                        return False
            elif name == "Alias":
                dd, aa = args
                rebound.add(dd)
                regs[dd] = regs[aa]
            elif name == "Drop":
                regs.pop(args[0], None)
            elif name == "QSubset":
                aa, bb = args
                touched |= {aa, bb}
                ans = regs[bb] in regs[aa]
                exp = post["obs"]["ans"]
                if ans is not exp:
                    self.fail(k, Failure("C03", "`b in a` differs from subset", expected=exp, got=repr(ans),
                                         a=heap_rec(pre, pre["regs"][aa - 1])["reg"], b=heap_rec(pre, pre["regs"][bb - 1])["reg"]))
            elif name == "QEq":
                aa, bb = args
                touched |= {aa, bb}
                allowed_raise = False
                ans = regs[aa] == regs[bb]
                exp = post["obs"]["ans"]
                if ans is not exp:
                    self.fail(k, Failure("C07", "== differs from region equality", expected=exp, got=repr(ans),
                                         a=heap_rec(pre, pre["regs"][aa - 1])["reg"], b=heap_rec(pre, pre["regs"][bb - 1])["reg"]))
            elif name == "QProbe":
                aa, bb = args
                touched |= {aa, bb}
                for fn in (lambda: regs[bb] in regs[aa], lambda: regs[aa] == regs[bb], lambda: regs[aa] in regs[bb]):
                    try:
                        fn()          # the answer is not judged (the model does not interpret it)
                    except StepTimeout:
                        raise
                    except Exception:
                        pass
            elif name == "QMeasure":
                (aa,) = args
                touched.add(aa)
                rec = heap_rec(pre, pre["regs"][aa - 1])
                for f in self.measure(regs[aa], rec):
                    self.fail(k, f)
            else:
                raise world.tlc.MachineryError("unknown action %s" % name) if hasattr(world, "tlc") else RuntimeError(name)
            outcome = "returned"
        except StepTimeout:
            raise
        except BaseException as ex:  # noqa  (numpy object loops surface SystemError)
            outcome = "raised"
            tb = traceback.format_exc(limit=-3)
            if name in ("MakeAtom", "MakeRegion"):
                self.fail(k, Failure(tags_res.get("region", "C19") if tags_res else "C19", "constructor raised", action=name, args=args, exc=repr(ex), tb=tb))
                return False
            if not allowed_raise:
                prop = {"Bin": "C01", "Inv": "C01", "Copy": "C08", "QSubset": "C03", "QEq": "C07",
                        "QMeasure": "C04", "Transform": "C09", "InvertInPlace": "C08"}.get(name, "C01")
                self.fail(k, Failure(prop, "call raised", action=name, args=args, exc=repr(ex), tb=tb))
            else:
                self.stats["raised_allowed"] += 1
            # C11: operands must be intact after a raise
            for r, (o, snap) in snaps.items():
                rec = heap_rec(pre, pre["regs"][r - 1])
                ff = w.compare(o, rec, what="reg%d after raise" % r, deep=False,
                               tags={"region": "C11", "kind": "C11"})
                for f in ff:
                    self.fail(k, f)
            # resynchronise the destination register
            if name in ("Bin", "Inv", "Copy"):
                dd = args[1] if name == "Bin" else args[0]
                rec = heap_rec(post, post["regs"][dd - 1])
                obj = w.canonical(rec["reg"], tuple(rec.get("frame", ())))
                if obj is None:
                    return False
                regs[dd] = obj
                return not any(f["property"] == "C11" for f in self.fails)
            return False

        # ---------------- post-state comparison
        pregs = post["regs"]
        ok = True
        if name in ("Transform", "InvertInPlace"):
            tgt = regs[args[1] if name == "Transform" else args[0]]
            touched |= {r for r, o in regs.items() if o is tgt}
        for r in sorted(regs):
            if pregs[r - 1] == 0:
                continue
            rec = heap_rec(post, pregs[r - 1])
            obj = regs[r]
            ex = id(obj) not in self.inexact
            if r == result_reg:
                ff = w.compare(obj, rec, what="result reg%d of %s" % (r, name), tags=tags_res, exact=ex)
                self.stats["compares"] += 1
                if any(f.what in ("region mismatch", "singleton expected", "singleton/unknown returned for a proper region") for f in ff):
                    ok = False
            elif r in rebound:
                ff = []
            elif r in touched or (r in snaps and w.snapshot(obj) != snaps[r][1]):
                # operand of the call (or an object that changed although it was not
                # involved): region, frame unchanged; segmentation as predicted
                t = {"region": "C08", "kind": "C08", "loops": "C08", "moment": "C08", "vertices": "C08"}
                if r not in touched:
                    self.fail(k, Failure("C08", "an object not involved in the call changed", reg=r, action=name))
                ff = w.compare(obj, rec, what="operand reg%d after %s" % (r, name), tags=t, deep=True, exact=ex)
                self.stats["compares"] += 1
                if any(f.what == "region mismatch" for f in ff):
                    ok = False
            else:
                ff = []
                if self.deep_all:
                    ff = w.compare(obj, rec, what="bystander reg%d" % r, tags={"region": "C08", "kind": "C08", "loops": "C08", "moment": "C08"}, exact=ex)
            for f in ff:
                self.fail(k, f)
        # aliasing / identity structure
        rl = sorted(r for r in regs if pregs[r - 1] != 0)
        for i, r1 in enumerate(rl):
            for r2 in rl[i + 1 :]:
                same_spec = pregs[r1 - 1] == pregs[r2 - 1]
                same_real = regs[r1] is regs[r2]
                if same_spec != same_real:
                    sing = pregs[r1 - 1] <= 2 or pregs[r2 - 1] <= 2
                    self.fail(k, Failure("C06" if sing else "C08", "identity structure differs", r1=r1, r2=r2, spec_same=same_spec, real_same=same_real, action=name))
                elif not same_real:
                    common = w.ident(regs[r1]) & w.ident(regs[r2])
                    if common:
                        self.fail(k, Failure("C08", "distinct objects share mutable state", r1=r1, r2=r2, nshared=len(common), action=name))
                        ok = False
        if self.record_obs:
            for r in rl:
                if pregs[r - 1] > 2:
                    try:
                        self.obs.append((k, r, self.battery(regs[r], tuple(heap_rec(post, pregs[r - 1]).get("frame", ())))))
                    except StepTimeout:
                        raise
                    except BaseException as ex:  # noqa
                        self.obs.append((k, r, repr(ex)))
        # C10: every live object answers like a deep copy of itself
        if self.check_c10 and name not in ("Alias", "Drop", "QMeasure"):
            for r in rl:
                if pregs[r - 1] > 2 and (r == result_reg or r in touched):
                    for f in self.c10(regs[r], heap_rec(post, pregs[r - 1])):
                        self.fail(k, f)
        return ok

    # -------------------------------------------------------------------
    def battery(self, obj, word):
        """cheap query battery used for history-independence (C10)"""
        w = self.w
        out = {}
        out["area"] = float(obj)
        out["kind"] = kind_of(obj)
        out["len"] = tuple(sorted(round(float(j), 9) for j in obj.jordans))  # order of curves is representation
        b = obj.box()
        out["box"] = tuple(round(float(v), 9) for v in (b.lowpt[0], b.lowpt[1], b.toppt[0], b.toppt[1]))
        out["m10"] = float(w.sp.IntegrateShape.polynomial(obj, 1, 0))
        T = realise.frame_affine(word) if word else None
        pts = []
        for kind, key, g in w.wit_region[:: max(1, len(w.wit_region) // 8)]:
            pts.append(bool(w.qpoint(w.real.img(g[0], g[1], T)) in obj))
        out["pts"] = tuple(pts)
        return out

    def c10(self, obj, rec):
        word = tuple(rec.get("frame", ()))
        if kind_of(obj) not in "SCD":
            return []  # a wrong singleton is reported by the comparison with the model
        try:
            live1 = self.battery(obj, word)
            fresh = self.battery(_copy.deepcopy(obj), word)
            live2 = self.battery(obj, word)
        except StepTimeout:
            raise
        except BaseException as ex:  # noqa
            return [Failure("C10", "query battery raised", exc=repr(ex), reg=rec["reg"])]
        fails = []
        for key in live1:
            if not _close(live1[key], fresh[key]):
                fails.append(Failure("C10", "live object answers differently from its deep copy", query=key, live=live1[key], fresh=fresh[key], reg=rec["reg"], frame=word))
            if not _close(live1[key], live2[key]):
                fails.append(Failure("C10", "repeating a query changed the answer", query=key, first=live1[key], second=live2[key], reg=rec["reg"]))
        return fails

    def measure(self, obj, rec):
        w = self.w
        reg, word = rec["reg"], tuple(rec.get("frame", ()))
        fails = []
        if reg in (0, w.u.full):
            a = float(obj)
            if reg == 0 and a != 0.0:
                fails.append(Failure("C04", "area of Empty", got=a))
            return fails
        fails += w.compare_moments(obj, reg, word, what="QMeasure")
        T = realise.frame_affine(word) if word else realise.Affine()
        exp = w.real.moment(reg, 0, 0, T)
        try:
            got = float(obj)
            if not abs(got - float(exp)) <= 1e-9 * float(w.abs_moment(0, 0, T)):
                fails.append(Failure("C04", "float(shape) differs from the area", expected=float(exp), got=got, reg=reg))
            if bool(obj) != (exp > 0):
                fails.append(Failure("C04", "bool(shape) differs from area > 0", reg=reg))
        except BaseException as ex:  # noqa
            fails.append(Failure("C04", "float(shape) raised", exc=repr(ex), reg=reg))
        return fails


def _close(a, b):
    if isinstance(a, tuple):
        return len(a) == len(b) and all(_close(x, y) for x, y in zip(a, b))
    if isinstance(a, float):
        return abs(a - b) <= 1e-9 * max(1.0, abs(a), abs(b))
    return a == b


# ---------------------------------------------------------------------------
# behaviours from the pair export
# ---------------------------------------------------------------------------

E_REC = {"reg": 0, "frame": (), "splits": frozenset(), "segk": True, "warm": False}
FREE = {"reg": -1, "frame": (), "splits": frozenset(), "segk": True, "warm": False}


def pair_case(u, row):
    full = u.full
    W_REC = dict(E_REC, reg=full)

    def rec(reg, splits=(), segk=True):
        return {"reg": reg, "frame": (), "splits": frozenset(tuple(p) for p in splits), "segk": segk, "warm": False}

    def oid(reg, slot):
        return 1 if reg == 0 else 2 if reg == full else slot

    ra, rb, rr = row["a"], row["b"], row["res"]
    s0 = {"heap": (E_REC, W_REC, FREE, FREE, FREE), "regs": (0, 0, 0), "obs": {"call": "init"}}
    s1 = {"heap": (E_REC, W_REC, rec(ra), FREE, FREE), "regs": (oid(ra, 3), 0, 0), "obs": {"call": "mkreg"}}
    s2 = {"heap": (E_REC, W_REC, rec(ra), rec(rb), FREE), "regs": (oid(ra, 3), oid(rb, 4), 0), "obs": {"call": "mkreg"}}
    s3 = {
        "heap": (E_REC, W_REC, rec(ra, row["sa"], row["ka"]), rec(rb, row["sb"], row["kb"]), rec(rr, row["splits"], row["segk"])),
        "regs": (oid(ra, 3), oid(rb, 4), oid(rr, 5)),
        "obs": {"call": "bin", "op": row["op"], "cls": row["cls"], "res": rr},
    }
    return {
        "label": "pair",
        "universe": u.name,
        "steps": [("SInit", (), s0), ("MakeRegion", (1, ra), s1), ("MakeRegion", (2, rb), s2), ("Bin", (row["op"], 3, 1, 2), s3)],
        "row": {k: row[k] for k in ("op", "a", "b", "res", "cls")},
    }


def history_case(u, row, word, warm):
    """deterministic history behaviour built from a ShapeSysExport row: both operands are
    constructed, one binary query warms whatever the implementation caches, both operands
    are then transformed in place by the same generators (so they stay in one frame) and the
    containment / equality / union questions are asked again - expected answers are the
    row's, whatever happened before"""
    full = u.full
    W_REC = dict(E_REC, reg=full)
    ra, rb = row["a"], row["b"]

    def rec(reg, fr=(), splits=(), segk=True):
        return {"reg": reg, "frame": tuple(fr), "splits": frozenset(tuple(p) for p in splits), "segk": segk, "warm": False}

    cur = {"sa": (), "sb": (), "ka": True, "kb": True}

    def st(fa, fb, obs, third=None):
        return {"heap": (E_REC, W_REC, rec(ra, fa, cur["sa"], cur["ka"]), rec(rb, fb, cur["sb"], cur["kb"]), third or FREE), "regs": (3, 4, 5 if third else 0), "obs": obs}

    steps = [("SInit", (), {"heap": (E_REC, W_REC, FREE, FREE, FREE), "regs": (0, 0, 0), "obs": {"call": "init"}}),
             ("MakeRegion", (1, ra), {"heap": (E_REC, W_REC, rec(ra), FREE, FREE), "regs": (3, 0, 0), "obs": {"call": "mkreg"}}),
             ("MakeRegion", (2, rb), st((), (), {"call": "mkreg"}))]
    wa, wb = {"aa": (1, 1), "ba": (1, 2), "ab": (2, 1), "bb": (2, 2)}[warm]
    ans = {"aa": True, "bb": True, "ba": row["sub_ba"], "ab": row["sub_ab"]}[warm]
    steps.append(("QSubset", (wa, wb), st((), (), {"call": "in", "ans": ans})))
    fa = fb = ()
    if word and word[0] == "far":
        # relative motion: A is moved far away, queried there (ShapeSys: FarApart, FarSubset),
        # and moved back; afterwards both are at the same place again
        unb = lambda r_: bool(r_ & 1)
        steps.append(("Transform", (1, 1, "f1"), st(("f1",), (), {"call": "transform"})))
        steps.append(("QSubset", (1, 2), st(("f1",), (), {"call": "in", "ans": unb(ra) and not unb(rb)})))     # b in a
        steps.append(("QSubset", (2, 1), st(("f1",), (), {"call": "in", "ans": unb(rb) and not unb(ra)})))     # a in b
        steps.append(("Transform", (1, 1, "F1"), st((), (), {"call": "transform"})))
        word = ()
    elif word and word[0] == "rot4":
        # A is rotated by a quarter turn, a binary query is made there (QProbe: not judged),
        # and three more quarter turns bring it back to the same place (frame word r1^4)
        steps.append(("Transform", (1, 1, "r1"), st(("r1",), (), {"call": "transform"})))
        steps.append(("QProbe", (1, 2), st(("r1",), (), {"call": "probe"})))
        for n_ in (2, 3, 4):
            steps.append(("Transform", (1, 1, "r1"), st(("r1",) * n_, (), {"call": "transform"})))
        fa = ("r1",) * 4
        word = ()
    if word and word[0] in ("twice", "twicefresh") and row["cls"] == "T" and row["op"] in ("or", "and"):
        # the same operator on the same operands again (they now carry the crossing vertices);
        # "twicefresh": the right operand is rebuilt in between, so only the left one is split
        rr = row["res"]
        third = rec(rr, (), row["splits"], row["segk"]) if rr not in (0, full) else None
        rid = 1 if rr == 0 else 2 if rr == full else 5
        s_bin = {"heap": (E_REC, W_REC, rec(ra, (), row["sa"], row["ka"]), rec(rb, (), row["sb"], row["kb"]), third or FREE),
                 "regs": (3, 4, rid), "obs": {"call": "bin", "op": row["op"], "cls": row["cls"], "res": rr}}
        steps.append(("Bin", (row["op"], 3, 1, 2), s_bin))
        if word[0] == "twicefresh":
            s_mk = {"heap": (E_REC, W_REC, rec(ra, (), row["sa"], row["ka"]), rec(rb), third or FREE), "regs": (3, 4, rid), "obs": {"call": "mkreg"}}
            steps.append(("MakeRegion", (2, rb), s_mk))
        steps.append(("Bin", (row["op"], 3, 1, 2), s_bin))
        cur.update(sa=row["sa"], sb=row["sb"], ka=row["ka"], kb=row["kb"])
        word = ()
        # the remaining questions are asked with the result still bound to variable 3
        steps.append(("Drop", (3,), st((), (), {"call": "drop"})))
    for g in word:
        fa = fa + (g,)
        steps.append(("Transform", (1, 1, g), st(fa, fb, {"call": "transform"})))
    for g in word:
        fb = fb + (g,)
        steps.append(("Transform", (2, 2, g), st(fa, fb, {"call": "transform"})))
    steps.append(("QSubset", (1, 2), st(fa, fb, {"call": "in", "ans": row["sub_ba"]})))
    steps.append(("QSubset", (2, 1), st(fa, fb, {"call": "in", "ans": row["sub_ab"]})))
    steps.append(("QEq", (1, 2), st(fa, fb, {"call": "eq", "ans": row["eq"]})))
    if row["cls"] == "T" and row["op"] in ("or", "and"):
        rr = row["res"]
        third = rec(rr, fa, row["splits"], row["segk"]) if rr not in (0, full) else None
        s_last = {"heap": (E_REC, W_REC, rec(ra, fa, row["sa"], row["ka"]), rec(rb, fb, row["sb"], row["kb"]), third or FREE),
                  "regs": (3, 4, 1 if rr == 0 else 2 if rr == full else 5), "obs": {"call": "bin", "op": row["op"], "cls": row["cls"], "res": rr}}
        steps.append(("Bin", (row["op"], 3, 1, 2), s_last))
    return {"label": "hist-%s-%s" % ("".join(g_ for n_, g_, _s in [(0, a_[2], 0) for nm_, a_, _st in steps if nm_ == "Transform"]), warm), "universe": u.name, "steps": steps,
            "row": {"op": "h%s%s%s" % (row["op"], "".join(word), warm), "a": ra, "b": rb, "res": row["res"], "cls": row["cls"]}}


def run_case(job):
    """worker entry: job = (universe name, realisation name, case, options)"""
    uname, rname, case, opts = job
    t0 = time.time()
    try:
        st = _tables(uname)
        real = realise.by_name(st.u, rname)
        rp = Replayer(st, real, **(opts or {}))
        fails = rp.run(case)
        return {"universe": uname, "real": rname, "case": case_id(case), "row": case.get("row"), "fails": fails, "stats": rp.stats, "wall": time.time() - t0, "obs": world._js(rp.obs),
                "steps": [[n, world._js(a)] for n, a, _ in case["steps"]]}
    except BaseException as ex:  # noqa
        return {"universe": uname, "real": rname, "case": case_id(case), "machinery": traceback.format_exc(), "fails": [], "stats": {}, "wall": time.time() - t0}


_TAB = {}


def _tables(uname):
    if uname not in _TAB:
        _TAB[uname] = spectab.load(uname)
    return _TAB[uname]
