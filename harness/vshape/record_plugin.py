"""pytest plugin (loaded with `-p vshape.record_plugin`, only active when
SHAPEPY_VERIF_TRACE=1): records the client-level calls that the repository's own
test-suite makes on shapes as traces for spec/TraceGeneric.tla.

The package is wrapped from OUTSIDE (no source change): the operator / query /
transformation methods of the shape classes are replaced by logging wrappers for
the duration of the session; a depth counter keeps nested library-internal calls
out of the trace.  Every object is abstracted to its SIGNATURE: the set of points
of a fixed generic lattice that lie in it, decided by an independent classifier
(winding numbers of finely sampled boundary polylines computed here from the
control points - shapepy's own membership code is not used)."""
from __future__ import annotations

import json
import math
import os

ACTIVE = os.environ.get("SHAPEPY_VERIF_TRACE") == "1"
OUT = os.environ.get("SHAPEPY_VERIF_TRACE_OUT", "/tmp/shapepy_traces.json")

# a generic lattice: no point lies on a boundary with "nice" coordinates
LATTICE = []
for _i in range(-14, 15):
    for _j in range(-14, 15):
        LATTICE.append((0.2317 * _i + 0.0093 * _j + 0.00731, 0.2171 * _j - 0.0077 * _i + 0.00377))
NW = len(LATTICE)

_state = {"depth": 0, "events": None, "ids": {}, "pin": [], "traces": [], "test": None}


# ------------------------------------------------------------------ independent classifier
def _bernstein(ctrl, t):
    pts = [(float(p[0]), float(p[1])) for p in ctrl]
    while len(pts) > 1:
        pts = [((1 - t) * a[0] + t * b[0], (1 - t) * a[1] + t * b[1]) for a, b in zip(pts[:-1], pts[1:])]
    return pts[0]


def _polyline(jordan, nsub=48):
    out = []
    for seg in jordan.segments:
        ctrl = seg.ctrlpoints
        n = 1 if len(ctrl) == 2 else nsub
        for k in range(n):
            out.append(_bernstein(ctrl, k / n))
    return out


def _winding(poly, q):
    tot = 0.0
    n = len(poly)
    for k in range(n):
        a, b = poly[k], poly[(k + 1) % n]
        a0 = math.atan2(a[1] - q[1], a[0] - q[0])
        a1 = math.atan2(b[1] - q[1], b[0] - q[0])
        d = a1 - a0
        while d <= -math.pi:
            d += math.tau
        while d > math.pi:
            d -= math.tau
        tot += d
    return round(tot / math.tau)


def _near(poly, q, eps=2e-3):
    n = len(poly)
    for k in range(n):
        a, b = poly[k], poly[(k + 1) % n]
        dx, dy = b[0] - a[0], b[1] - a[1]
        L2 = dx * dx + dy * dy
        t = 0.0 if L2 == 0 else max(0.0, min(1.0, ((q[0] - a[0]) * dx + (q[1] - a[1]) * dy) / L2))
        px, py = a[0] + t * dx, a[1] + t * dy
        if (px - q[0]) ** 2 + (py - q[1]) ** 2 < eps * eps:
            return True
    return False


def signature(shape):
    """-> (sorted list of lattice indices inside, sorted list of indices too close to a boundary)"""
    name = type(shape).__name__
    if name == "EmptyShape":
        return [], []
    if name == "WholeShape":
        return list(range(1, NW + 1)), []
    polys = {}

    def simple_in(simple, q):
        j = simple.jordans[0]
        if id(j) not in polys:
            polys[id(j)] = _polyline(j)
        w = _winding(polys[id(j)], q)
        area2 = sum(a[0] * b[1] - b[0] * a[1] for a, b in zip(polys[id(j)], polys[id(j)][1:] + polys[id(j)][:1]))
        return w == 1 if area2 > 0 else w == 0

    def inside(s, q):
        nm = type(s).__name__
        if nm == "SimpleShape":
            return simple_in(s, q)
        if nm == "ConnectedShape":
            return all(simple_in(x, q) for x in s.subshapes)
        return any(inside(x, q) for x in s.subshapes)

    ins, unk = [], []
    for k, q in enumerate(LATTICE):
        v = inside(shape, q)
        if any(_near(p, q) for p in polys.values()):
            unk.append(k + 1)
        elif v:
            ins.append(k + 1)
    return ins, unk


# ------------------------------------------------------------------ recording
def _oid(obj):
    st = _state
    if id(obj) not in st["ids"]:
        st["ids"][id(obj)] = len(st["ids"]) + 1
        st["pin"].append(obj)
    return st["ids"][id(obj)]


def _desc(obj):
    ins, unk = signature(obj)
    return {"id": _oid(obj), "sig": ins, "unk": unk, "kind": type(obj).__name__[0]}


def _is_shape(x):
    return type(x).__name__ in ("EmptyShape", "WholeShape", "SimpleShape", "ConnectedShape", "DisjointShape")


def _wrap(cls, name, kind):
    orig = cls.__dict__.get(name)
    if orig is None:
        return
    fn = orig

    def wrapper(self, *a, **kw):
        st = _state
        if st["events"] is None or st["depth"] > 0:
            return fn(self, *a, **kw)
        other = a[0] if a else None
        ev = {"ev": kind, "name": name}
        try:
            ev["pre"] = [_desc(self)] + ([_desc(other)] if _is_shape(other) else [])
        except Exception:
            return fn(self, *a, **kw)
        st["depth"] += 1
        try:
            res = fn(self, *a, **kw)
            out = "returned"
        except BaseException as ex:  # noqa
            res = None
            out = "raised:" + type(ex).__name__
            raise
        finally:
            st["depth"] -= 1
            try:
                ev["out"] = out
                ev["post"] = [_desc(self)] + ([_desc(other)] if _is_shape(other) else [])
                if kind in ("bin", "inv", "copy", "inplace") and _is_shape(res):
                    ev["res"] = _desc(res)
                elif kind in ("in", "eq"):
                    ev["other_is_shape"] = _is_shape(other)
                    ev["ans"] = res if isinstance(res, bool) else repr(res)
                if kind != "in" or _is_shape(other):
                    st["events"].append(ev)
            except Exception as ex:  # noqa
                st["events"].append({"ev": "recorder-error", "err": repr(ex)})
        return res

    wrapper.__name__ = name
    wrapper.__doc__ = getattr(fn, "__doc__", None)
    setattr(cls, name, wrapper)


def install():
    import shapepy.shape as sh

    table = {"__or__": "bin", "__and__": "bin", "__sub__": "bin", "__xor__": "bin", "__add__": "bin", "__mul__": "bin",
             "__invert__": "inv", "__neg__": "inv", "__copy__": "copy", "__deepcopy__": "copy",
             "__contains__": "in", "__eq__": "eq", "move": "inplace", "scale": "inplace", "rotate": "inplace", "invert": "inplace"}
    for cls in (sh.BaseShape, sh.SingletonShape, sh.EmptyShape, sh.WholeShape, sh.DefinedShape, sh.SimpleShape, sh.ConnectedShape, sh.DisjointShape):
        for name, kind in table.items():
            _wrap(cls, name, kind)


if ACTIVE:
    import pytest

    def pytest_configure(config):
        install()

    @pytest.hookimpl(hookwrapper=True)
    def pytest_runtest_call(item):
        _state["events"] = []
        _state["ids"] = {}
        _state["pin"] = []
        _state["test"] = item.nodeid
        outcome = yield
        evs = _state["events"]
        _state["events"] = None
        if evs:
            _state["traces"].append({"test": item.nodeid, "events": evs})

    def pytest_sessionfinish(session, exitstatus):
        with open(OUT, "w") as fh:
            json.dump({"nw": NW, "traces": _state["traces"]}, fh)
