"""Running TLC from the harness: build directory preparation, invocation under a
timeout, parsing of the summary (states, transitions, violated invariant)."""
from __future__ import annotations

import os
import re
import shutil
import subprocess
import time

VERIF = os.path.dirname(os.path.dirname(os.path.dirname(os.path.abspath(__file__))))
SPEC = os.path.join(VERIF, "spec")
# VERIF_BUILD_DIR: private scratch directory (development: several checks side by side);
# the table cache is shared and only ever written atomically
BUILD = os.environ.get("VERIF_BUILD_DIR") or os.path.join(VERIF, "build")
TABLES = os.path.join(VERIF, "build", "tables")
BSPEC = os.path.join(BUILD, "spec")


class MachineryError(Exception):
    """anything that is a failure of the verification machinery (exit 2)"""


def prepare():
    """copy spec/*.tla into build/spec and (re)generate the MC_* universe modules"""
    from . import universe

    os.makedirs(BSPEC, exist_ok=True)
    for fn in os.listdir(SPEC):
        if fn.endswith(".tla"):
            shutil.copy(os.path.join(SPEC, fn), os.path.join(BSPEC, fn))
    for u in universe.all_universes():
        path = os.path.join(BSPEC, "MC_%s.tla" % u.name)
        txt = u.mc_text()
        if not os.path.exists(path) or open(path).read() != txt:
            with open(path, "w") as fh:
                fh.write(txt)


def wrapper(root, extends):
    """write build/spec/<root>.tla extending the given modules"""
    path = os.path.join(BSPEC, root + ".tla")
    txt = "---- MODULE %s ----\nEXTENDS %s\n====\n" % (root, ", ".join(extends))
    if not os.path.exists(path) or open(path).read() != txt:
        with open(path, "w") as fh:
            fh.write(txt)
    return path


class TlcResult:
    def __init__(self, rc, out, wall):
        self.rc = rc
        self.out = out
        self.wall = wall
        m = re.search(
            r"(\d+) states generated, (\d+) distinct states found", out
        )
        self.generated = int(m.group(1)) if m else 0
        self.distinct = int(m.group(2)) if m else 0
        self.ok = "Model checking completed. No error has been found." in out or (
            "Finished in" in out and "Error:" not in out and rc == 0
        )
        m = re.search(r"Invariant (\w+) is violated", out)
        self.violated = m.group(1) if m else None
        if not self.violated:
            m = re.search(r"Action property (\w+) is violated", out)
            self.violated = m.group(1) if m else None
        m = re.search(r"depth of the complete state graph search is (\d+)", out)
        self.depth = int(m.group(1)) if m else None

    def error_text(self):
        keep = [
            l
            for l in self.out.splitlines()
            if l.strip()
            and not re.match(r"^(Parsing|Semantic|Linting|Progress)", l)
        ]
        return "\n".join(keep[-40:])


def run(
    root,
    cfg,
    *,
    workers=16,
    timeout=600,
    env=None,
    extra=(),
    tag=None,
    cfg_text=None,
):
    """run TLC on build/spec/<root>.tla with spec/cfg/<cfg>.cfg (or cfg_text)"""
    tag = tag or root
    meta = os.path.join(BUILD, "tlc", tag)
    shutil.rmtree(meta, ignore_errors=True)
    os.makedirs(meta, exist_ok=True)
    if cfg_text is not None:
        cfgpath = os.path.join(BSPEC, tag + ".cfg")
        with open(cfgpath, "w") as fh:
            fh.write(cfg_text)
    else:
        cfgpath = os.path.join(SPEC, "cfg", cfg + ".cfg")
    cmd = [
        "tlc",
        "-workers",
        str(workers),
        "-metadir",
        meta,
        "-noGenerateSpecTE",
        "-config",
        cfgpath,
    ] + list(extra) + [root + ".tla"]
    e = dict(os.environ)
    e.update(env or {})
    t0 = time.time()
    try:
        p = subprocess.run(
            cmd,
            cwd=BSPEC,
            env=e,
            stdout=subprocess.PIPE,
            stderr=subprocess.STDOUT,
            timeout=timeout,
            text=True,
        )
        rc, out = p.returncode, p.stdout
    except subprocess.TimeoutExpired as ex:
        subprocess.run(["pkill", "-f", "metadir %s" % meta])
        raise MachineryError("TLC timeout on %s (%ss)" % (tag, timeout)) from ex
    finally:
        shutil.rmtree(meta, ignore_errors=True)
    res = TlcResult(rc, out, time.time() - t0)
    with open(os.path.join(BUILD, "tlc_%s.log" % tag), "w") as fh:
        fh.write(out)
    return res


PLANE_CONSTS = """CONSTANTS
  PN <- U_N
  AtomCells <- U_AtomCells
  XS <- U_XS
  YS <- U_YS
  FaceSeq <- U_FaceSeq
"""
