#!/venv/bin/python
"""Generates seeded/SUMMARY.md from the meta.json files written by verify_mutants.py."""
import glob
import json
import os

HERE = os.path.dirname(os.path.dirname(os.path.abspath(__file__)))
NOTES = json.load(open(os.path.join(HERE, "tools", "mutant_notes.json")))
rows = []
for f in sorted(glob.glob(os.path.join(HERE, "seeded", "*", "meta.json"))):
    m = json.load(open(f))
    key = "%s-%s" % (m["property"], m["mutant"])
    m.update(NOTES.get(key, {}))
    m["breaks_property"] = m["property"]
    json.dump(m, open(f, "w"), indent=1)
    det = [c for c, v in m.get("checks", {}).items() if v.get("detected")]
    miss = [c for c, v in m.get("checks", {}).items() if not v.get("detected")]
    rows.append((m["property"], m["mutant"], m.get("confirmed"), det, miss, m.get("needs", ""), m.get("what", "")))
with open(os.path.join(HERE, "seeded", "SUMMARY.md"), "w") as fh:
    fh.write("# Seeded changes: confirmation and detection\n\n")
    fh.write("confirmed = patch applies to /repo HEAD, the 225 tests pass with it, the demonstration fails with it and passes without it.\n")
    fh.write("detected by = quick tier (VERIF_SEED=1) of the listed checks run against the changed source.\n\n")
    fh.write("| change | confirmed | detected by | not detected by | what it changes / needs |\n|---|---|---|---|---|\n")
    for p, k, c, det, miss, needs, what in rows:
        fh.write("| %s-%s | %s | %s | %s | %s %s |\n" % (p, k, c, ", ".join(det) or "-", ", ".join(miss) or "-", what, needs))
print(len(rows), "rows")
