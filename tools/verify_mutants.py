#!/venv/bin/python
"""Development aid: confirm seeded changes and measure which checks catch them.
For each /tmp/wt/<id>/_out/m<k>: scratch worktree of /repo HEAD, apply the patch, run the
repository's test-suite (must pass), the demonstration with and without the change, and
the listed checks against the changed source (SHAPEPY_SRC).  Writes /verif/seeded/<id>-m<k>/."""
import json
import os
import shutil
import subprocess
import sys
import time
from concurrent.futures import ThreadPoolExecutor

PY = "/venv/bin/python"


def sh(cmd, cwd=None, env=None, timeout=3600):
    e = dict(os.environ)
    e.update(env or {})
    p = subprocess.run(cmd, shell=True, cwd=cwd, env=e, stdout=subprocess.PIPE, stderr=subprocess.STDOUT, text=True, timeout=timeout)
    return p.returncode, p.stdout


def verify(item):
    pid, mk, checks = item
    src = "/tmp/wt/%s/_out/%s" % (pid, mk)
    dest = "/verif/seeded/%s-%s" % (pid, mk)
    wt = "/tmp/wt/v_%s_%s" % (pid, mk)
    meta = {"property": pid, "mutant": mk, "ran": []}
    sh("git -C /repo worktree remove --force %s" % wt)
    rc, out = sh("git -C /repo worktree add -q --detach %s HEAD" % wt)
    try:
        rc, out = sh("git apply --3way %s/patch.diff" % src, cwd=wt)
        if rc != 0:
            rc, out = sh("git apply %s/patch.diff" % src, cwd=wt)
        meta["applies_to_head"] = rc == 0
        if rc != 0:
            meta["apply_output"] = out[-1500:]
            return meta
        sh("git -C %s diff > %s/patch_head.diff" % (wt, "/tmp/wt"), cwd=wt)
        _, diff = sh("git diff HEAD", cwd=wt)
        env = {"PYTHONPATH": wt + "/src", "MPLBACKEND": "Agg"}
        t0 = time.time()
        rc, out = sh("%s -m pytest -q -p no:cacheprovider --timeout=900 -x 2>&1 | tail -3" % PY, cwd=wt, env=env)
        meta["suite_with_change"] = out.strip().splitlines()[-1] if out.strip() else ""
        meta["ran"].append("pytest in the changed worktree: " + meta["suite_with_change"])
        rc1, out1 = sh("%s %s/demo.py" % (PY, src), cwd=wt, env=env, timeout=3000)
        meta["demo_with_change"] = {"exit": rc1, "tail": out1[-400:]}
        rc2, out2 = sh("%s %s/demo.py" % (PY, src), cwd="/tmp", env={"PYTHONPATH": "/repo/src", "MPLBACKEND": "Agg"}, timeout=3000)
        meta["demo_on_head"] = {"exit": rc2, "tail": out2[-300:]}
        meta["confirmed"] = ("passed" in meta["suite_with_change"] and "failed" not in meta["suite_with_change"] and rc1 != 0 and rc2 == 0)
        meta["checks"] = {}
        for c in checks:
            ev = "/tmp/wt/evid_%s_%s_%s" % (pid, mk, c)
            rc, out = sh("bin/check %s --tier quick" % c, cwd="/verif", env={"SHAPEPY_SRC": wt + "/src", "VERIF_EVIDENCE_DIR": ev, "VERIF_BUILD_DIR": ev + "_b", "VERIF_SEED": "1", "VERIF_NPROC": "6"}, timeout=5000)
            lines = [l for l in out.splitlines() if l.startswith("VIOLATION") or l.startswith("   ") or l.startswith("OK") or "MACHINERY" in l]
            meta["checks"][c] = {"exit": rc, "detected": rc == 1, "first_lines": lines[:6]}
            shutil.rmtree(ev, ignore_errors=True)
            shutil.rmtree(ev + "_b", ignore_errors=True)
        os.makedirs(dest, exist_ok=True)
        shutil.copy(src + "/patch.diff", dest + "/patch_original.diff")
        open(dest + "/patch.diff", "w").write(diff)
        shutil.copy(src + "/demo.py", dest + "/demo.py")
        if os.path.exists(src + "/notes.md"):
            shutil.copy(src + "/notes.md", dest + "/notes.md")
        json.dump(meta, open(dest + "/meta.json", "w"), indent=1)
        return meta
    finally:
        sh("git -C /repo worktree remove --force %s" % wt)


if __name__ == "__main__":
    items = []
    for a in sys.argv[1:]:
        pid, mk, checks = a.split(":")
        items.append((pid, mk, checks.split(",")))
    with ThreadPoolExecutor(3) as ex:
        for m in ex.map(verify, items):
            print(m["property"], m["mutant"], "applies=%s confirmed=%s" % (m.get("applies_to_head"), m.get("confirmed")),
                  {c: v["detected"] for c, v in m.get("checks", {}).items()}, flush=True)
