#!/venv/bin/python
"""Regenerates /verif/MANIFEST.json from the table below (single source of truth)."""
import json
import os

HERE = os.path.dirname(os.path.dirname(os.path.abspath(__file__)))
props = [json.loads(l) for l in open(os.path.join(HERE, "properties.jsonl"))]

TB = ("TLC 1.8 and the TLA+ semantics of the specification modules; the exact-arithmetic realisation layer "
      "(polynomial automorphisms, rational cell weights); the cell-level cross-check of the exported tables")

CHECKS = {
 "C01": dict(tech="TLC model checking of Plane/ShapeSys/FollowPath + replay of TLC-computed operator behaviours into shapepy under exact realisations + TLC validation of recorded executions (TraceShapeSys, TraceGeneric)",
   text="TLC checks the region algebra theorems over all regions/pairs of the bounded universes and ResultIsSetAlgebra on the heap model; every operator x ordered pair of pinch-free regions (one-step behaviours computed by TLC from ShapeSys!BinEffect) and TLC-simulated nested programs are executed on real objects under polygon/quadratic/cubic realisations and projected back (witness points classified exactly in the pre-image). The code-shaped model FollowPath.tla of the path-following operators is checked against the declarative layer on every transversal pair; histories with relative motion (far / rotated frames) and the repository's own test-suite (recorded, validated by TraceGeneric.tla) are included.",
   ref="II.3, II.4, 3.1, 3.2, 5.1, 6/C01"),
 "C02": dict(tech="TLC-checked Plane tables + exhaustive witness-point replay against PointClass",
   text="Point classes (in/on/out) of every witness of the universe - cell points down to 0.1% of a cell from curved edges, edge points, vertices, far points - come from the specification tables; contains_point/in are compared for both boundary flags on objects of every kind under all realisations and under a transformed frame.", ref="6/C02"),
 "C03": dict(tech="TLC (ThmSubset, ThmBdryIn, SubsetLaw) + replay of all ordered region pairs through `in`/contains_jordan",
   text="Subset and curve-in-region answers for every ordered pair of pinch-free regions are computed by TLC (ShapeSysExport rows) and compared with `B in A`, `A in B`, contains_jordan (closed/open), A in A, and the consequences A|B == A, A&B == B.", ref="6/C03"),
 "C04": dict(tech="TLC proof of the discrete Green theorem on the model + exact cell-weight oracle under realisations",
   text="TLC checks GreenMoment = Moment for all regions and a+b<=4; IntegrateShape.polynomial/area, float, bool and IntegrateJordan.area are compared with exact rational cell-weight sums (exactly for rational polygons).", ref="6/C04"),
 "C05": dict(tech="TLC (ThmInclExcl with the Whole=0 / unbounded-negative conventions) + identities evaluated on the library's own moments",
   text="The four identities are evaluated on the library's own numbers for every T-class ordered pair (exact for rational polygons, 1e-5 otherwise) and each result moment is compared with the specification's Moment(reg').", ref="6/C05"),
 "C06": dict(tech="TLC (Canonical, kind tables, singleton laws) + structural comparison of operator results with the specification's loops/kinds",
   text="Kind, number of curves, corner cycles, predicted vertex cycles, singleton identity of every operator result, including S|~S, S&~S, S-S, S^S, S^~S for every pinch-free S.", ref="6/C06"),
 "C07": dict(tech="TLC heap model (QEq) + replay of == over all region pairs and representation variants",
   text="A == B / B == A against region equality for all ordered pairs; for equal regions the variants (rotated start, deep copy, redundant vertices from splitting, float coordinates) must be == in all directions; results must be bool.", ref="6/C07"),
 "C08": dict(tech="TLC action properties OperandsUnchanged/FreshResults + replay of simulated behaviours with bit-exact bystander snapshots and identity sets",
   text="After every action of TLC-simulated programs (operators, copies, queries, in-place transformations, aliases) every object not targeted by the call must be bit-identical, the identity structure (aliases, singletons) must equal the model's, and distinct objects must share no Point2D/curve.", ref="6/C08"),
 "C09": dict(tech="TLC heap model with frame words + replay through the exact affine map of each word",
   text="Simulated programs with Transform/BadTransform actions; witnesses and moments are mapped through the exact affine map of the frame word; same-object return, exactness for move/scale on rationals, words reducing to the identity give == shapes.", ref="6/C09"),
 "C10": dict(tech="TLC heap model with cache/segmentation state + replay of simulated histories with live-vs-deep-copy query batteries and fresh-process reruns",
   text="After every action of TLC-simulated histories each involved object answers a query battery identically live, on a deep copy and live again; behaviours are re-run in fresh interpreters with other PYTHONHASHSEED values and cold/pre-warmed memo tables and observation logs must coincide.", ref="6/C10"),
 "C11": dict(tech="TLC model checking of the PlusCal model of non-atomic calls (Calls.tla) + sys.monitoring fault injection at internal call boundaries + TLC validation of recorded mutation-event traces (TraceCalls.tla)",
   text="TLC checks Intact at every crash point of the repaired design and refutes the pinned in-place-inversion design; in the implementation an exception / KeyboardInterrupt is raised at sampled internal call boundaries of operators, containment, ==, integrals, copies and queries, after which operands are compared with the specification record and query battery and the call is repeated; recorded in-place mutations of operands are validated by TLC against Calls; invalid arguments of move/scale/rotate via BadTransform actions.", ref="3.3, 5.3, 6/C11"),
 "C12": dict(tech="TLC heap model with frames + the same TLC-computed behaviours replayed under similarity realisations (scale 1e-3..1e5, translation to 1e6, rotations)",
   text="The specification behaviour is the expected result for every similarity map: T-class operator rows, containment rows and point membership are re-executed with atoms constructed at other scales, places and orientations (polygon float / Fraction, quadratic), and every assertion must hold as at scale 1; Fraction atoms under rational maps must be exact.", ref="6/C12"),
 "C13": dict(tech="TLC-checked exact moment algebra (Plane) + exact comparison of every control point and moment under int/Fraction realisations",
   text="Under integer / Fraction realisations (denominators up to 1e4, rational rotation, move/scale programs) every control point of every operator result must equal the exact rational image of its grid point and be int/Fraction typed; moments must be the exact rationals.", ref="6/C13"),
 "C14": dict(tech="TLC (ThmXings, ThmParity: crossing parameters and parity on all region pairs) + comparison of intersection() with the TLC-exported crossing parameters",
   text="For every T-class pair of regions whose boundaries cross, TLC exports for each crossing the loop, edge and rational parameter on both boundaries (parametrisation is invariant under the realisations); intersection() of every curve pair must report exactly these tuples (exact for rational polygons), satisfy the range and A(u)=B(v) constraints, swap symmetry, the flag filters and A & B; crossings at vertices after splitting; (None, None) exactly for identical segments.", ref="6/C14"),
 "C15": dict(tech="TLC model checking of SplitClean.tla (tiling, monotonicity, clean restores / idempotent) + replay of TLC-simulated split/clean programs on real curves of degree 1-3",
   text="SplitClean.tla models a curve as original segments with break points; TLC checks that pieces tile each segment without zero-length piece, that ignored parameters are no-ops and that clean restores the segmentation. Simulated programs (1-3 pairs per split, repeated / nearly repeated / near-0,1 parameters) are replayed: each real piece must retrace its part of the original segment, share junction points, keep area and orientation; split;clean must be == the original.", ref="6/C15"),
 "C16": dict(tech="TLC-checked decision table (Prims.tla) instantiated with concrete parameter values against closed-form geometry",
   text="TLC enumerates factory x size class x centre class x count class, checks that the table is total and that any invalid class forces ValueError, and exports it; every row is instantiated with several concrete values (int, Fraction, float, zero, negative, string, None, malformed centres) and the outcome, kind, orientation, segment count/degree, vertices, closed-form areas, circle band and convergence are checked.", ref="6/C16", cat="exploration"),
 "C17": dict(tech="TLC enumeration and theorems on segment chains (Curves.tla) replayed through the real constructors + four-constructor agreement on the specification's loops",
   text="TLC enumerates every chain of <= 4 segments over 4 points with its closedness verdict (and proves that from_vertices round-trips and that reversing a segment opens a closed chain); each chain is fed to from_segments/from_ctrlpoints (accepted iff closed); every boundary loop of sampled regions is built by all four constructors from two start rotations and compared (==, vertices, box, signed length, area, orientation).", ref="6/C17"),
 "C18": dict(tech="TLC proof of the Bernstein / derivative / de Casteljau identities on scaled integers (Bezier.tla) + exact replay of the TLC-computed values",
   text="TLC proves, for degrees 1..6 at 7 rational nodes, that the closed form of bezier_caract_matrix is the Bernstein-to-monomial matrix, that derivative control points differentiate and that de Casteljau pieces re-parametrise the curve, and exports B(t), B'(t) and the pieces as exact rationals for integer control polygons; the harness compares segment(t), eval, derivate(k), split, box, the memoised matrix (cold/warm) exactly, plus point-on-curve and winding oracles.", ref="6/C18"),
 "C20": dict(tech="PlotPlan of the specification (components, loops, corners) + read-back of matplotlib patches on the Agg backend",
   text="For every sampled region (incl. Empty, Whole) under realisations of degree 1, 2, mixed, 3 the patches added by ShapePloter.plot are read back: number of filled paths and outlines from the specification's PlotPlan, code sequences per segment degree (LINETO / CURVE3 x2 / CURVE4 x3), vertices = control points, fill colour by boundedness, shape unchanged.", ref="6/C20"),
 "C19": dict(tech="TLC heap model (MakeRegion) + direct constructors in permuted orders against operator-built objects and the specification record",
   text="For every region with >= 2 boundary curves the direct ConnectedShape/DisjointShape constructions in permuted orders (with Empty entries) are compared with the specification record, with the operator-built object (== both ways), with complements; collapse rules (single member copy, empty list).", ref="6/C19"),
}

checks = []
for p in props:
    pid = p["id"]
    if pid in CHECKS:
        c = CHECKS[pid]
        checks.append({
            "property_id": pid,
            "quick_cmd": "bin/check %s --tier quick" % pid,
            "thorough_cmd": "bin/check %s --tier thorough" % pid,
            "evidence_file": "evidence/%s.json" % pid,
            "replay_cmd_template": "bin/check %s --replay {path}" % pid,
            "engine": "vshape",
            "level_claimed": {"category": c.get("cat", "model_checking"), "text": c["text"], "design_ref": "DESIGN.md section " + c["ref"]},
            "level_note": "Bounded: universes of <= 4 atoms on <= 12x12 cells, degrees <= 3, programs <= 11 steps; the quick tier samples the deterministic corpus by VERIF_SEED. Trusted base: " + TB,
            "technique": c["tech"],
        })
na = [{"property_id": p["id"], "reason": "not claimed"} for p in props if p["id"] not in CHECKS]

m = {
 "version": 1,
 "setup_cmd": "bin/setup",
 "hooks": {"guard": "SHAPEPY_VERIF_TRACE",
           "enable": "no source hooks in /repo: the harness imports /repo/src (sys.path) and observes the public API from outside; SHAPEPY_VERIF_TRACE=1 switches on the harness-side recorder harness/vshape/record_plugin.py (loaded into pytest with -p) that wraps the shape classes for the duration of a test session; fault injection uses sys.monitoring",
           "baseline_off_cmd": "cd /repo && /venv/bin/python -m pytest -ra -q -p no:cacheprovider --timeout=900 --continue-on-collection-errors",
           "source_commits": [], "add_only": True},
 "engines": [{"name": "vshape", "path": "harness/vshape", "serves_properties": sorted(CHECKS),
              "kind_free_text": "TLA+ specification (spec/*.tla) checked by TLC; behaviours and expected values exported by TLC are replayed into shapepy under exact realisations; recorded executions are validated by TLC trace specifications"}],
 "checks": checks,
 "not_applicable": na,
 "notes": "bin/check <id> exits 0/1/2 (held / VIOLATION / machinery failure). KNOWN_FINDINGS.json lists recorded findings and fixed defects.",
}
json.dump(m, open(os.path.join(HERE, "MANIFEST.json"), "w"), indent=1)
print(len(checks), "checks;", len(na), "not applicable")
