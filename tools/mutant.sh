#!/bin/sh
# tools/mutant.sh <patch.diff | revert:<commit>> <check-id> [more check args]
# Development aid: applies a source change to a scratch worktree of /repo (outside /repo and
# /verif), runs one check against it through SHAPEPY_SRC, removes the worktree.
P=$1; shift
WT=/tmp/wt/mut_$$
git -C /repo worktree add -q --detach "$WT" HEAD || exit 2
case "$P" in
  revert:*) git -C "$WT" revert --no-commit "${P#revert:}" >/dev/null 2>&1 || { echo "revert failed"; git -C /repo worktree remove --force "$WT"; exit 2; } ;;
  *) git -C "$WT" apply --3way "$P" >/dev/null 2>&1 || git -C "$WT" apply "$P" || { echo "patch does not apply"; git -C /repo worktree remove --force "$WT"; exit 2; } ;;
esac
cd /verif
SHAPEPY_SRC="$WT/src" VERIF_EVIDENCE_DIR=/tmp/wt/evid_$$ bin/check "$@"
rc=$?
git -C /repo worktree remove --force "$WT"
rm -rf /tmp/wt/evid_$$
exit $rc
