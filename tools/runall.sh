#!/bin/sh
# tools/runall.sh <seed> [checks...] : run quick checks with a seed, one line per check
SEED=$1; shift
CHECKS=${@:-C01 C02 C03 C04 C05 C06 C07 C08 C09 C10 C11 C12 C13 C14 C15 C16 C17 C18 C19 C20}
cd /verif
for c in $CHECKS; do
  grep -q "\"$c\"" MANIFEST.json || continue
  s=$(date +%s)
  VERIF_SEED=$SEED VERIF_TIER=quick bin/check $c > build/runall_${SEED}_$c.log 2>&1
  rc=$?
  e=$(date +%s)
  echo "seed=$SEED $c rc=$rc $((e-s))s $(grep -c VIOLATION build/runall_${SEED}_$c.log) violations; $(tail -1 build/runall_${SEED}_$c.log | cut -c1-150)"
done
