--------------------------- MODULE ShapeSysExport ---------------------------
(***************************************************************************)
(* One-step behaviours of ShapeSys, computed by TLC with the very          *)
(* operator (BinEffect) that defines the Bin action: for every operator    *)
(* and every ordered pair of pinch-free regions, freshly constructed       *)
(* operands, the predicted result region, class, segmentation of result    *)
(* and operands.  The harness replays each row as the behaviour            *)
(*   MakeRegion(1, ra); MakeRegion(2, rb); Bin(op, 3, 1, 2).               *)
(***************************************************************************)
EXTENDS ShapeSys, Json, IOUtils

FreshObj(rr) == [reg |-> rr, frame |-> <<>>, splits |-> {}, segk |-> TRUE, warm |-> FALSE]
PFRegs == {rr \in 0..Full : ~Pinch(rr)}
\* one operator per TLC process when VERIF_OP is set (the export is single-threaded)
OpSeq == IF "VERIF_OP" \in DOMAIN IOEnv THEN <<IOEnv.VERIF_OP>> ELSE <<"or", "and", "sub", "xor">>

Row(op, ra, rb) ==
    LET ef == BinEffect(op, FreshObj(ra), FreshObj(rb)) IN
    [op |-> op, a |-> ra, b |-> rb, res |-> ef.reg, cls |-> ClassOf(ra, rb),
     segk |-> ef.segk, splits |-> SetToSeq(ef.splits),
     sa |-> SetToSeq(ef.sa), ka |-> ef.ka, sb |-> SetToSeq(ef.sb), kb |-> ef.kb,
     sub_ba |-> RSubset(rb, ra), sub_ab |-> RSubset(ra, rb), eq |-> (ra = rb),
     jin_closed |-> BdryIn(rb, ra, TRUE), jin_open |-> BdryIn(rb, ra, FALSE),
     xing |-> IF op = "or" /\ ClassOf(ra, rb) = "T" THEN SetToSeq(Xings(ra, rb)) ELSE <<>>,
     reaches |-> (ef.sa # {} \/ ef.sb # {} \/ (ra \notin {0, Full} /\ rb \notin {0, Full} /\ Reaches(ra, rb)))]

PairRows == [kk \in 1..Len(OpSeq) |->
               SetToSeq({Row(OpSeq[kk], ra, rb) : ra \in PFRegs, rb \in PFRegs})]

ASSUME JsonSerialize(IOEnv.VERIF_OUT, [name |-> IOEnv.VERIF_UNIVERSE, rows |-> PairRows])
=============================================================================
