----------------------------- MODULE TraceCalls -----------------------------
(***************************************************************************)
(* Validation of recorded mutation-event traces against Calls (C11).       *)
(* A recorded trace = [kind, outcome, log] of one client-level call of the *)
(* real library, possibly cut short by an injected exception: log is the   *)
(* sequence of in-place mutations of OPERAND objects observed during the   *)
(* call (split of an operand curve, invert of an operand).  The trace is   *)
(* accepted iff some behaviour of Calls ends (returned or raised) with     *)
(* exactly that log and that outcome.  Calls is nondeterministic, so TLC   *)
(* searches: the constraint prunes behaviours whose log is not a prefix of *)
(* the record, acceptance is noted in a TLC register per trace and checked *)
(* as a postcondition (-workers 1).                                        *)
(***************************************************************************)
EXTENDS Calls, Json, IOUtils, TLCExt, SequencesExt

Rec == JsonDeserialize(IOEnv.TRACE_FILE)
VARIABLE tix
tcvars == <<vars, tix>>

ASSUME \A ii \in 1..Len(Rec) : TLCSet(ii, FALSE)

TCInit == Init /\ tix \in 1..Len(Rec) /\ kind = Rec[tix].kind
TCNext == Next /\ UNCHANGED tix
TCSpec == TCInit /\ [][TCNext]_tcvars

Prune == /\ Len(log) <= Len(Rec[tix].log)
         /\ \A kk \in 1..Len(log) : log[kk] = Rec[tix].log[kk]
Note  == (pc = "Done" /\ log = Rec[tix].log /\ outcome = Rec[tix].outcome) => TLCSet(tix, TRUE)
Guide == Prune /\ Note

AllAccepted == \A ii \in 1..Len(Rec) : TLCGet(ii)
Rejected == {ii \in 1..Len(Rec) : ~TLCGet(ii)}
PrintRejected == PrintT(<<"REJECTED", Rejected>>)
=============================================================================
