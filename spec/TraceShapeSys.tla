--------------------------- MODULE TraceShapeSys ---------------------------
(***************************************************************************)
(* Code -> spec trace validation.  A trace is a recorded execution of the  *)
(* real library: one event per client-level call (action name, arguments,  *)
(* outcome) followed by the OBSERVED projection of every client variable   *)
(* (region from witness-point queries, kind, vertex set, aliasing).  TLC   *)
(* accepts a trace iff it is a behaviour of ShapeSys: each event must be   *)
(* an enabled action of the specification whose successor state agrees     *)
(* with the observation.  Many traces are validated per invocation (tix).  *)
(* A trace that cannot be extended moves to the absorbing state `bad`,     *)
(* which violates the invariant Accepted (total verdict; the counter-      *)
(* example names trace and event).                                         *)
(***************************************************************************)
EXTENDS ShapeSys, Json, IOUtils, TLCExt, Functions

Traces == JsonDeserialize(IOEnv.TRACE_FILE)

VARIABLES tix, lix, bad
tvars == <<heap, regs, obs, tix, lix, bad>>

Events == Traces[tix].events
Ev == Events[lix]

\* the observation recorded after the call agrees with the successor state
ObsOK(ev) ==
    \A rr \in Regs :
        LET oo == ev.regs[rr] IN
        /\ oo.held = (regs'[rr] # 0)
        /\ oo.held =>
            LET hh == heap'[regs'[rr]] IN
            /\ oo.reg = hh.reg                                   \* C01/C08/C09: region
            /\ oo.kind \in (IF hh.reg = 0 THEN {"E"} ELSE IF hh.reg = Full THEN {"W"} ELSE KindSet(hh.reg))   \* C06
            /\ {r2 \in Regs : regs'[r2] = regs'[rr]} = {oo.alias[kk] : kk \in 1..Len(oo.alias)}              \* C08 identity
            /\ (hh.segk /\ hh.reg \notin {0, Full} /\ ~Pinch(hh.reg) /\ oo.vertsknown)
                   => {oo.verts[kk] : kk \in 1..Len(oo.verts)} = Verts(hh)                                   \* C06/C08 segmentation
            /\ oo.frame = hh.frame

Act(ev) ==
    CASE ev.act = "MakeAtom"   -> MakeAtom(ev.d, ev.atom, ev.neg)
      [] ev.act = "MakeRegion" -> MakeRegion(ev.d, ev.reg)
      [] ev.act = "MakeEmpty"  -> MakeEmpty(ev.d)
      [] ev.act = "MakeWhole"  -> MakeWhole(ev.d)
      [] ev.act = "Bin"        -> Bin(ev.op, ev.d, ev.a, ev.b)
      [] ev.act = "Inv"        -> Inv(ev.d, ev.a, ev.how)
      [] ev.act = "Copy"       -> Copy(ev.d, ev.a, ev.how)
      [] ev.act = "InvertInPlace" -> InvertInPlace(ev.a)
      [] ev.act = "Transform"  -> Transform(ev.d, ev.a, ev.gen)
      [] ev.act = "Alias"      -> Alias(ev.d, ev.a)
      [] ev.act = "Drop"       -> Drop(ev.d)
      [] ev.act = "QSubset"    -> QSubset(ev.a, ev.b) /\ obs'.ans = ev.ans      \* C03
      [] ev.act = "QEq"        -> QEq(ev.a, ev.b) /\ obs'.ans = ev.ans          \* C07
      [] ev.act = "QProbe"     -> QProbe(ev.a, ev.b)
      [] ev.act = "QMeasure"   -> QMeasure(ev.a)
      [] OTHER -> FALSE

TraceStep ==
    /\ ~bad /\ lix <= Len(Events)
    /\ Ev.out = "returned"
    /\ Act(Ev)
    /\ ObsOK(Ev)
    /\ lix' = lix + 1 /\ UNCHANGED <<tix, bad>>

Reject ==
    /\ ~bad /\ lix <= Len(Events)
    /\ ~ENABLED TraceStep
    /\ bad' = TRUE /\ UNCHANGED <<heap, regs, obs, tix, lix>>

TInit == SInit /\ tix \in 1..Len(Traces) /\ lix = 1 /\ bad = FALSE
TNext == TraceStep \/ Reject
TSpec == TInit /\ [][TNext]_tvars

Accepted == ~bad
\* every trace is consumed to its end (checked as a postcondition over the whole run):
\* the number of distinct states is the total number of events plus one initial state per trace
AllConsumed == TLCGet("distinct") = Len(Traces) + FoldFunction(LAMBDA tr, acc : acc + Len(tr.events), 0, Traces)
=============================================================================
