------------------------------ MODULE PlaneThm ------------------------------
(***************************************************************************)
(* Theorems of the declarative layer, checked by TLC over ALL regions of a *)
(* universe (phz = 1) and ALL ordered pairs of regions (phz = 2).  The     *)
(* enumeration goes through a phase variable (DESIGN.md 12.7d).            *)
(***************************************************************************)
EXTENDS Plane
VARIABLES phz, rfz, rgz
tvars == <<phz, rfz, rgz>>

TInit == phz = 0 /\ rfz = 0 /\ rgz = 0
TNext == \/ phz = 0 /\ phz' = 1 /\ rfz' \in 0..Full /\ rgz' = 0
         \/ phz = 1 /\ phz' = 2 /\ rgz' \in 0..Full /\ rfz' = rfz
TSpec == TInit /\ [][TNext]_tvars

U1(PP(_)) == phz = 1 => PP(rfz)
U2(PP(_,_)) == phz = 2 => PP(rfz, rgz)

\* ---- unary ----
ThmGreen == U1(LAMBDA ra : RT(ra).green = RT(ra).mom)
ThmMomCompl == U1(LAMBDA ra : \A ab \in Exps : Moment(RNot(ra), ab) = -Moment(ra, ab))
ThmLoops == U1(LAMBDA ra : ~Pinch(ra) => Cardinality(Loops(ra)) = NLoops(ra))
ThmLoopCorners == U1(LAMBDA ra : ~Pinch(ra) =>
      UNION {{lp[kk] : kk \in 1..Len(lp)} : lp \in Loops(ra)} = CornerPts(ra))
ThmKindShape == U1(LAMBDA ra :
      /\ (Kind(ra) = "E") = (ra = 0) /\ (Kind(ra) = "W") = (ra = Full)
      /\ Kind(ra) = "S" => RT(ra).ncomp = 1 /\ RT(ra).nco = 1 /\ NLoops(ra) = 1
      /\ Kind(ra) = "C" => RT(ra).ncomp = 1 /\ RT(ra).nco >= 2
      /\ Kind(ra) = "D" => RT(ra).ncomp >= 2)
\* docs/source/rst/shape.rst: ~Simple is Simple, ~Connected is Disjoint, ~Disjoint is
\* Connected or Disjoint, ~Empty = Whole, ~Whole = Empty  (pinch-free regions)
ThmComplRow == U1(LAMBDA ra : (~Pinch(ra)) =>
      LET k1 == Kind(ra)  k2 == Kind(RNot(ra)) IN
        /\ k1 = "E" => k2 = "W"
        /\ k1 = "W" => k2 = "E"
        /\ k1 = "S" => k2 = "S"
        /\ k1 = "C" => k2 = "D"
        /\ k1 = "D" => k2 \in {"C","D"})
\* the singleton laws of C06 at the level of regions
ThmSingletonLaws == U1(LAMBDA ra :
      /\ ROr(ra, RNot(ra)) = Full /\ RAnd(ra, RNot(ra)) = 0
      /\ RSub(ra, ra) = 0 /\ RXor(ra, ra) = 0 /\ RXor(ra, RNot(ra)) = Full)

\* ---- binary ----
ThmInclExcl == U2(LAMBDA ra, rb : \A ab \in Exps :
      /\ Moment(ROr(ra,rb), ab) + Moment(RAnd(ra,rb), ab) = Moment(ra, ab) + Moment(rb, ab)
      /\ Moment(RSub(ra,rb), ab) = Moment(ra, ab) - Moment(RAnd(ra,rb), ab)
      /\ Moment(RXor(ra,rb), ab) = Moment(ROr(ra,rb), ab) - Moment(RAnd(ra,rb), ab))
ThmParity == U2(LAMBDA ra, rb : ClassOf(ra,rb) = "T" => Cardinality(CrossPts(ra,rb)) % 2 = 0)
ThmSubset == U2(LAMBDA ra, rb :
      /\ RSubset(ra, ra)
      /\ RSubset(rb, ra) => (ROr(ra,rb) = ra /\ RAnd(ra,rb) = rb)
      /\ (RSubset(ra, rb) /\ RSubset(rb, ra)) => ra = rb
      /\ RSubset(rb, ra) = RSubset(RNot(ra), RNot(rb))
      /\ RSub(ra, rb) = RAnd(ra, RNot(rb))
      /\ RXor(ra, rb) = ROr(RSub(ra,rb), RSub(rb,ra)))
\* the pieces A-B and B-A that `^` unites touch exactly at the crossing points of the
\* operand boundaries (the root of the `^` findings): their class is never "T" when
\* the operands cross
ThmXorTouch == U2(LAMBDA ra, rb :
      (ClassOf(ra,rb) = "T" /\ CrossPts(ra,rb) # {}) => ClassOf(RSub(ra,rb), RSub(rb,ra)) # "T")
\* a region is contained in another iff ... its boundary is inside and (sanity of BdryIn):
\* subset implies the boundary lies in the closed superset
ThmBdryIn == U2(LAMBDA ra, rb : (rb # 0 /\ RSubset(rb, ra)) => BdryIn(rb, ra, TRUE))
\* a transversal crossing lies strictly inside exactly one edge of each boundary, with a
\* parameter strictly between 0 and 1
ThmXings == U2(LAMBDA ra, rb : (ClassOf(ra,rb) = "T") =>
      \A pt \in CrossPts(ra, rb) :
          /\ Cardinality(EdgeHits(pt, ra)) = 1 /\ Cardinality(EdgeHits(pt, rb)) = 1
          /\ \A hh \in EdgeHits(pt, ra) \cup EdgeHits(pt, rb) :
                hh.par[2] # 0 /\ hh.par[1] * hh.par[2] > 0 /\ hh.par[1] * hh.par[1] < hh.par[2] * hh.par[2])

(***************************************************************************)
(* Code-shaped models checked against the declarative layer.               *)
(***************************************************************************)
\* --- point membership (C02): the decision table of SimpleShape._contains_point
\* Winding number of a directed boundary loop (given by its directed unit edges) about an
\* interior point of cell cc, by casting a ray in +x: +1 for every edge crossing it upwards,
\* -1 downwards (what IntegrateJordan.winding_number computes for a point off the curve).
LoopEdges(lp) == {<<lp[kk], lp[(kk % Len(lp)) + 1]>> : kk \in 1..Len(lp)}
RayWind(lp, cc) ==
    FoldSet(LAMBDA ee, acc : acc +
              (IF ee[1][1] = ee[2][1] /\ ee[1][1] >= cc[1]                 \* vertical edge at x >= right side of the cell
               THEN (IF ee[1][2] < cc[2] /\ cc[2] <= ee[2][2] THEN 1           \* upwards across the ray y = cc[2] - 1/2
                     ELSE IF ee[2][2] < cc[2] /\ cc[2] <= ee[1][2] THEN -1 ELSE 0)
               ELSE 0), 0, LoopEdges(lp))
\* orientation of a loop: sign of its signed area (float(jordan) > 0 in the code)
LoopArea2(lp) == FoldSet(LAMBDA ee, acc : acc + (XC(ee[1][1]) * YC(ee[2][2]) - XC(ee[2][1]) * YC(ee[1][2])), 0, LoopEdges(lp))
\* SimpleShape._contains_point for a point off the boundary (both values of the flag agree there):
\*   counter-clockwise: wind > 0 / wind = 1 ;  clockwise: wind > -1 / wind = 0
SimpleContains(lp, cc, closed) ==
    LET ww == RayWind(lp, cc) IN
    IF LoopArea2(lp) > 0 THEN (IF closed THEN ww > 0 ELSE ww = 1) ELSE (IF closed THEN ww > -1 ELSE ww = 0)
\* a region of kind S or C is the intersection of the simple shapes of its loops
\* (ConnectedShape._contains_point: all sub-shapes)
ThmWindingTable == U1(LAMBDA ra : (~Pinch(ra) /\ Kind(ra) \in {"S", "C"}) =>
    \A cc \in Cells : \A closed \in BOOLEAN :
        (\A lp \in Loops(ra) : SimpleContains(lp, cc, closed)) = CellIn(cc, ra))

\* --- containment between two simple shapes (C03): SimpleShape.__contains_simple after
\* the repair (both unbounded: recurse on the bounded complements)
BoxOf(ra) == LET pts == BdryPts(ra) IN
             [x0 |-> Min({pt[1] : pt \in pts}), x1 |-> Max({pt[1] : pt \in pts}),
              y0 |-> Min({pt[2] : pt \in pts}), y1 |-> Max({pt[2] : pt \in pts})]
BoxesMeet(ba, bb) == ~(ba.x1 < bb.x0 \/ bb.x1 < ba.x0 \/ ba.y1 < bb.y0 \/ bb.y1 < ba.y0)
AreaOf(ra) == Moment(ra, <<0,0>>)
RECURSIVE ContainsSimple(_,_)
\* does (simple) self contain (simple) other ?
ContainsSimple(self, other) ==
    LET aA == AreaOf(other)  aB == AreaOf(self) IN
    IF aA < 0 /\ aB > 0 THEN FALSE
    ELSE IF ~BoxesMeet(BoxOf(self), BoxOf(other)) THEN aA > 0 /\ aB < 0
    ELSE IF aA > 0 /\ aB < 0 THEN BdryIn(other, self, TRUE) /\ ~BdryIn(self, other, TRUE)
    ELSE IF aA > aB \/ ~BdryIn(other, self, TRUE) THEN FALSE
    ELSE IF aA > 0 THEN TRUE
    ELSE ContainsSimple(RNot(other), RNot(self))
ThmContainsSimple == U2(LAMBDA ra, rb :
    (~Pinch(ra) /\ ~Pinch(rb) /\ Kind(ra) = "S" /\ Kind(rb) = "S" /\ ClassOf(ra, rb) = "T")
        => ContainsSimple(ra, rb) = RSubset(rb, ra))
\* the pinned code answered TRUE in the last branch ("both unbounded") without testing:
\* TLC refutes it (expected counterexample: the complements of an L-shape and of a square
\* in its notch, universe U2notch) - kept to show that the theorem above has teeth
ContainsSimplePinned(self, other) ==
    LET aA == AreaOf(other)  aB == AreaOf(self) IN
    IF aA < 0 /\ aB > 0 THEN FALSE
    ELSE IF ~BoxesMeet(BoxOf(self), BoxOf(other)) THEN aA > 0 /\ aB < 0
    ELSE IF aA > 0 /\ aB < 0 THEN BdryIn(other, self, TRUE) /\ ~BdryIn(self, other, TRUE)
    ELSE IF aA > aB \/ ~BdryIn(other, self, TRUE) THEN FALSE
    ELSE TRUE
RefutedContainsSimplePinned == U2(LAMBDA ra, rb :
    (~Pinch(ra) /\ ~Pinch(rb) /\ Kind(ra) = "S" /\ Kind(rb) = "S" /\ ClassOf(ra, rb) = "T")
        => ContainsSimplePinned(ra, rb) = RSubset(rb, ra))

\* --- grouping of result curves into components and holes (C06, C19): ShapeFromJordans /
\* DivideConnecteds.  Each curve is the boundary of the simple shape on its left; take the curve
\* of largest |area|, put with it every remaining curve that is mutually contained with ALL
\* curves already in the group (curve j in shape of c and curve c in shape of j), recurse on
\* the rest.  Theorem: the groups are exactly the connected components of the region.
LeftCell(lp) ==   \* the cell to the left of the first edge of the loop
    LET pa == lp[1]  pb == lp[2] IN
    IF pa[2] = pb[2] THEN (IF pb[1] > pa[1] THEN <<pa[1] + 1, pa[2] + 1>> ELSE <<pa[1], pa[2]>>)
    ELSE (IF pb[2] > pa[2] THEN <<pa[1], pa[2] + 1>> ELSE <<pa[1] + 1, pa[2]>>)
RightCell(lp) ==
    LET pa == lp[1]  pb == lp[2] IN
    IF pa[2] = pb[2] THEN (IF pb[1] > pa[1] THEN <<pa[1] + 1, pa[2]>> ELSE <<pa[1], pa[2] + 1>>)
    ELSE (IF pb[2] > pa[2] THEN <<pa[1] + 1, pa[2] + 1>> ELSE <<pa[1], pa[2]>>)
\* is the cell in the simple shape bounded by loop lc ?  (winding decision table, closed)
InSimple(cc, lc) == SimpleContains(lc, cc, TRUE)
\* curve lj lies in the simple shape of lc (the loops of a pinch-free region never touch, so one
\* cell beside lj decides)
CurveIn(lj, lc) == InSimple(LeftCell(lj), lc) /\ InSimple(RightCell(lj), lc)
AbsArea2(lp) == IF LoopArea2(lp) < 0 THEN -LoopArea2(lp) ELSE LoopArea2(lp)
RECURSIVE GrowGroup(_,_,_)
\* (group so far, candidates still to examine, rejected)
GrowGroup(grp, cand, ext) ==
    IF cand = {} THEN <<grp, ext>>
    ELSE LET big == CHOOSE lp \in cand : \A l2 \in cand : AbsArea2(lp) >= AbsArea2(l2)
             rest == cand \ {big}
             inner == {lj \in rest : \A lc \in grp \cup {big} : CurveIn(lj, lc) /\ CurveIn(lc, lj)}
         IN GrowGroup(grp \cup {big}, inner, ext \cup (rest \ inner))
RECURSIVE Groups(_)
Groups(ls) == IF ls = {} THEN {}
              ELSE LET gg == GrowGroup({}, ls, {}) IN {gg[1]} \cup Groups(gg[2])
\* expected: loops grouped by the component of the region that lies on their left
CompOfCell(cc, ra) == CHOOSE cp \in CompsP(PSofReg(ra)) : PatchOf[cc] \in cp
ThmGrouping == U1(LAMBDA ra : (ra \notin {0, Full} /\ ~Pinch(ra)) =>
    Groups(Loops(ra)) = {{lp \in Loops(ra) : CompOfCell(LeftCell(lp), ra) = cp} : cp \in CompsP(PSofReg(ra))})
\* the variant of a seeded change (compare a candidate only with the biggest curve of the group)
\* is refuted when rings sit inside the holes of rings (universe U4nest)
RECURSIVE GrowGroupWeak(_,_,_)
GrowGroupWeak(grp, cand, ext) ==
    IF cand = {} THEN <<grp, ext>>
    ELSE LET big == CHOOSE lp \in cand : \A l2 \in cand : AbsArea2(lp) >= AbsArea2(l2)
             first == IF grp = {} THEN big ELSE CHOOSE lp \in grp : \A l2 \in grp : AbsArea2(lp) >= AbsArea2(l2)
             rest == cand \ {big}
             inner == {lj \in rest : CurveIn(lj, first) /\ CurveIn(first, lj)}
         IN GrowGroupWeak(grp \cup {big}, inner, ext \cup (rest \ inner))
RECURSIVE GroupsWeak(_)
GroupsWeak(ls) == IF ls = {} THEN {} ELSE LET gg == GrowGroupWeak({}, ls, {}) IN {gg[1]} \cup GroupsWeak(gg[2])
RefutedGroupingWeak == U1(LAMBDA ra : (ra \notin {0, Full} /\ ~Pinch(ra)) =>
    GroupsWeak(Loops(ra)) = {{lp \in Loops(ra) : CompOfCell(LeftCell(lp), ra) = cp} : cp \in CompsP(PSofReg(ra))})
=============================================================================
