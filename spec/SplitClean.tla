----------------------------- MODULE SplitClean -----------------------------
(***************************************************************************)
(* Splitting and cleaning a closed curve (C15).                            *)
(*                                                                         *)
(* A curve has NS original segments, each parametrised over [0, Den]       *)
(* (integers: Den-ths).  brk[i] is the set of interior break points of     *)
(* original segment i: the redundant vertices.  JordanCurve.split takes    *)
(* pairs (index of a CURRENT segment, parameter in [0,1]); parameters 0    *)
(* and 1 and repeated parameters are ignored.  clean() removes exactly the *)
(* redundant vertices.  The curve itself (its point set, orientation,      *)
(* area) is not part of the state because no action changes it - that is   *)
(* the property; the conformance harness checks that every current piece   *)
(* of the real curve retraces orig_i over [lo, hi].                        *)
(***************************************************************************)
EXTENDS Integers, Sequences, FiniteSets, TLC, SequencesExt

CONSTANTS NS,        \* number of original segments
          Den,       \* resolution of break points
          Params,    \* split parameters offered: set of <<num, den>> with 0 <= num <= den
          MaxCalls   \* bound on the number of calls

VARIABLES brk, ncalls, last
scvars == <<brk, ncalls, last>>

Sorted(ss) == SetToSortSeq(ss, LAMBDA xa, xb : xa < xb)
\* pieces of original segment ii: sequence of [orig, lo, hi]
PiecesOf(bb, ii) == LET pts == Sorted(bb[ii] \cup {0, Den})
                    IN [kk \in 1..(Len(pts) - 1) |-> [orig |-> ii, lo |-> pts[kk], hi |-> pts[kk+1]]]
RECURSIVE Concat(_,_)
Concat(bb, ii) == IF ii > NS THEN <<>> ELSE PiecesOf(bb, ii) \o Concat(bb, ii + 1)
CurSegs(bb) == Concat(bb, 1)

Ignored(pp) == pp[1] = 0 \/ pp[1] = pp[2]
Divides(sg, pp) == ((sg.hi - sg.lo) * pp[1]) % pp[2] = 0
NewBreak(sg, pp) == sg.lo + ((sg.hi - sg.lo) * pp[1]) \div pp[2]

\* JordanCurve.split(indexs, nodes): prs is a sequence of <<current index, parameter>>;
\* cs is the current segmentation (indices refer to the segmentation before the call)
Split(cs, prs) ==
    /\ ncalls < MaxCalls
    /\ \A kk \in 1..Len(prs) : prs[kk][1] \in 1..Len(cs) /\ Divides(cs[prs[kk][1]], prs[kk][2])
    /\ brk' = [ii \in 1..NS |-> brk[ii] \cup
                 {NewBreak(cs[prs[kk][1]], prs[kk][2]) : kk \in {k2 \in 1..Len(prs) : cs[prs[k2][1]].orig = ii /\ ~Ignored(prs[k2][2])}}]
    /\ ncalls' = ncalls + 1
    /\ last' = [call |-> "split", pairs |-> prs]

Clean ==
    /\ ncalls < MaxCalls
    /\ brk' = [ii \in 1..NS |-> {}]
    /\ ncalls' = ncalls + 1
    /\ last' = [call |-> "clean"]

SCInit == brk = [ii \in 1..NS |-> {}] /\ ncalls = 0 /\ last = [call |-> "init"]
Params3 == {pp \in Params : pp \in {<<1,2>>, <<1,3>>, <<1,1>>}}
SCNext ==
    LET cs == CurSegs(brk)
        nn == Len(cs)
    IN
    \/ Clean
    \/ \E c1 \in 1..nn, p1 \in Params : Split(cs, << <<c1, p1>> >>)
    \/ \E c1 \in 1..nn, p1 \in Params, c2 \in 1..nn, p2 \in Params : Split(cs, << <<c1, p1>>, <<c2, p2>> >>)
    \* three pairs, given out of order (the library sorts them), two of them on one segment
    \/ \E c1 \in 1..nn, c3 \in 1..nn, p1 \in Params3, p2 \in Params3, p3 \in Params3 :
           c1 <= c3 /\ Split(cs, << <<c3, p3>>, <<c1, p1>>, <<c1, p2>> >>)
SCSpec == SCInit /\ [][SCNext]_scvars

\* ---------------------------------------------------------------- properties
TypeOK == \A ii \in 1..NS : brk[ii] \subseteq 1..(Den - 1)
\* the pieces of every original segment tile it, in order, without zero-length piece
Tiling == \A ii \in 1..NS :
            LET ps == PiecesOf(brk, ii) IN
            /\ ps[1].lo = 0 /\ ps[Len(ps)].hi = Den
            /\ \A kk \in 1..Len(ps) : ps[kk].lo < ps[kk].hi
            /\ \A kk \in 1..(Len(ps) - 1) : ps[kk].hi = ps[kk+1].lo
\* split only adds vertices; clean gives back the original segmentation; clean is idempotent
SplitMonotone == [][last'.call = "split" => \A ii \in 1..NS : brk[ii] \subseteq brk'[ii]]_scvars
CleanRestores == [][last'.call = "clean" => CurSegs(brk') = CurSegs([ii \in 1..NS |-> {}])]_scvars
CleanIdempotent == [][(last.call = "clean" /\ last'.call = "clean") => brk' = brk]_scvars
\* ignored parameters change nothing
IgnoredNoop == [][(last'.call = "split" /\ \A kk \in 1..Len(last'.pairs) : Ignored(last'.pairs[kk][2])) => brk' = brk]_scvars
=============================================================================
