------------------------------- MODULE Calls -------------------------------
(***************************************************************************)
(* Non-atomic calls and crash points (C11).                                *)
(*                                                                         *)
(* A "non-mutating" public call of shapepy is not atomic: it runs through  *)
(* internal steps, some of which change operand objects in place.  Every   *)
(* label below is a crash point: an exception or asynchronous interrupt    *)
(* may surface there (`either <step> or raise`).  Abstract state of the    *)
(* operands: orientation sign of every operand curve (the region it        *)
(* denotes flips with it) and the set of curve pairs whose crossings have  *)
(* already been inserted as vertices (representation only).                *)
(*                                                                         *)
(* Two designs are modelled, selected by the constant InPlaceInvert:       *)
(*   TRUE  - the pinned code: SimpleShape._contains_shape inverts `self`   *)
(*           and each sub-shape of the other operand in place around the   *)
(*           recursive test and inverts them back afterwards;              *)
(*   FALSE - the repaired code (fix d345c87): the test works on            *)
(*           complements (fresh copies), operands are never inverted.      *)
(* TLC shows that Intact fails for TRUE (counterexample: interrupt right   *)
(* after the first invert) and holds for FALSE.  Which of the two the real *)
(* code follows is decided by trace validation of recorded mutation events *)
(* (TraceCalls) and by fault injection at every internal call boundary.    *)
(***************************************************************************)
EXTENDS Integers, Sequences, FiniteSets, TLC

CONSTANTS NSub,           \* sub-shapes of the connected operand (1..NSub)
          NPairs,         \* pairs of boundary curves (A_i, B_j) of a binary operator
          InPlaceInvert,  \* BOOLEAN, see above
          Kinds           \* which calls are explored: subset of {"contains", "binop", "sub", "xor", "query"}

Objs == 0..NSub           \* 0 = self, 1..NSub = sub-shapes of the other operand

(* --algorithm Calls {
  variables orient = [o \in Objs |-> IF o = 0 THEN 1 ELSE -1],   \* hollow shape: holes are clockwise
            orient0 = orient,
            cntA = 0, cntB = 0,              \* split calls made so far on curves of operand A / B
            log = <<>>,                      \* mutation events on operand objects
            outcome = "running",
            kind \in Kinds,
            np \in 0..NPairs,                \* curve pairs whose boxes overlap (input dependent)
            ix = 1, found = FALSE, pr = 1, sides = "AB";

  macro mutate(ev) { log := Append(log, ev) }

  \* SimpleShape._contains_shape(self, connected)
  procedure ContainsConnected() {
   c0: either { if (InPlaceInvert) { orient[0] := -orient[0]; mutate(<<"invert", 0>>) } }
       or     { outcome := "raised"; goto unwindC };
   c1: while (ix <= NSub /\ ~found) {
         either { if (InPlaceInvert) { orient[ix] := -orient[ix]; mutate(<<"invert", ix>>) } }
         or     { outcome := "raised"; goto unwindC };
   c2:   either { with (bb \in BOOLEAN) { found := bb } }        \* recursive `self in subshape`
         or     { outcome := "raised"; goto unwindC };
   c3:   either { if (InPlaceInvert) { orient[ix] := -orient[ix]; mutate(<<"invert", ix>>) }; ix := ix + 1 }
         or     { outcome := "raised"; goto unwindC };
       };
   c4: either { if (InPlaceInvert) { orient[0] := -orient[0]; mutate(<<"invert", 0>>) } }
       or     { outcome := "raised"; goto unwindC };
   unwindC: return;
  }

  \* FollowPath.or_shapes / and_shapes: split_two_jordans for every pair of curves whose
  \* boxes overlap.  sides = "AB": both operands are split (| and &); "A" / "B": the other
  \* one is a temporary complement (the differences that make up - and ^)
  procedure SplitLoop() {
   s0: pr := 1;
   s1: while (pr <= np) {
         either { if (sides # "B") { cntA := cntA + 1; mutate(<<"split", "A", cntA>>) } }
         or     { outcome := "raised"; goto unwindS };
   s2:   either { if (sides # "A") { cntB := cntB + 1; mutate(<<"split", "B", cntB>>) }; pr := pr + 1 }
         or     { outcome := "raised"; goto unwindS };
       };
   s3: either { skip }                                           \* classify mid-points, follow paths,
       or     { outcome := "raised"; goto unwindS };             \* assemble (may assert by itself)
   unwindS: return;
  }

  \* DefinedShape.__or__ / __and__ : short-cut tests, then FollowPath
  procedure BinOp() {
   b0: either { call ContainsConnected() }                      \* `other in self`, `self in other`
       or     { outcome := "raised"; goto unwindB };
   b1: if (outcome = "raised") { goto unwindB };
   b2: call SplitLoop();
   unwindB: return;
  }

  {
   m0: if (kind = "contains") { call ContainsConnected() }
       else if (kind = "binop") { sides := "AB"; call BinOp() }
       else if (kind = "sub") { sides := "A"; call BinOp() }
       else if (kind = "xor") { sides := "A"; call BinOp() }
       else { either { skip } or { outcome := "raised" } };      \* pure queries
   m1: if (kind = "xor" /\ outcome = "running") { sides := "B"; ix := 1; found := FALSE; call BinOp() };
   m2: if (outcome = "running") { outcome := "returned" };
  }
} *)
\* BEGIN TRANSLATION
VARIABLES pc, orient, orient0, cntA, cntB, log, outcome, kind, np, ix, found, 
          pr, sides, stack

vars == << pc, orient, orient0, cntA, cntB, log, outcome, kind, np, ix, found, 
           pr, sides, stack >>

Init == (* Global variables *)
        /\ orient = [o \in Objs |-> IF o = 0 THEN 1 ELSE -1]
        /\ orient0 = orient
        /\ cntA = 0
        /\ cntB = 0
        /\ log = <<>>
        /\ outcome = "running"
        /\ kind \in Kinds
        /\ np \in 0..NPairs
        /\ ix = 1
        /\ found = FALSE
        /\ pr = 1
        /\ sides = "AB"
        /\ stack = << >>
        /\ pc = "m0"

c0 == /\ pc = "c0"
      /\ \/ /\ IF InPlaceInvert
                  THEN /\ orient' = [orient EXCEPT ![0] = -orient[0]]
                       /\ log' = Append(log, (<<"invert", 0>>))
                  ELSE /\ TRUE
                       /\ UNCHANGED << orient, log >>
            /\ pc' = "c1"
            /\ UNCHANGED outcome
         \/ /\ outcome' = "raised"
            /\ pc' = "unwindC"
            /\ UNCHANGED <<orient, log>>
      /\ UNCHANGED << orient0, cntA, cntB, kind, np, ix, found, pr, sides, 
                      stack >>

c1 == /\ pc = "c1"
      /\ IF ix <= NSub /\ ~found
            THEN /\ \/ /\ IF InPlaceInvert
                             THEN /\ orient' = [orient EXCEPT ![ix] = -orient[ix]]
                                  /\ log' = Append(log, (<<"invert", ix>>))
                             ELSE /\ TRUE
                                  /\ UNCHANGED << orient, log >>
                       /\ pc' = "c2"
                       /\ UNCHANGED outcome
                    \/ /\ outcome' = "raised"
                       /\ pc' = "unwindC"
                       /\ UNCHANGED <<orient, log>>
            ELSE /\ pc' = "c4"
                 /\ UNCHANGED << orient, log, outcome >>
      /\ UNCHANGED << orient0, cntA, cntB, kind, np, ix, found, pr, sides, 
                      stack >>

c2 == /\ pc = "c2"
      /\ \/ /\ \E bb \in BOOLEAN:
                 found' = bb
            /\ pc' = "c3"
            /\ UNCHANGED outcome
         \/ /\ outcome' = "raised"
            /\ pc' = "unwindC"
            /\ found' = found
      /\ UNCHANGED << orient, orient0, cntA, cntB, log, kind, np, ix, pr, 
                      sides, stack >>

c3 == /\ pc = "c3"
      /\ \/ /\ IF InPlaceInvert
                  THEN /\ orient' = [orient EXCEPT ![ix] = -orient[ix]]
                       /\ log' = Append(log, (<<"invert", ix>>))
                  ELSE /\ TRUE
                       /\ UNCHANGED << orient, log >>
            /\ ix' = ix + 1
            /\ pc' = "c1"
            /\ UNCHANGED outcome
         \/ /\ outcome' = "raised"
            /\ pc' = "unwindC"
            /\ UNCHANGED <<orient, log, ix>>
      /\ UNCHANGED << orient0, cntA, cntB, kind, np, found, pr, sides, stack >>

c4 == /\ pc = "c4"
      /\ \/ /\ IF InPlaceInvert
                  THEN /\ orient' = [orient EXCEPT ![0] = -orient[0]]
                       /\ log' = Append(log, (<<"invert", 0>>))
                  ELSE /\ TRUE
                       /\ UNCHANGED << orient, log >>
            /\ pc' = "unwindC"
            /\ UNCHANGED outcome
         \/ /\ outcome' = "raised"
            /\ pc' = "unwindC"
            /\ UNCHANGED <<orient, log>>
      /\ UNCHANGED << orient0, cntA, cntB, kind, np, ix, found, pr, sides, 
                      stack >>

unwindC == /\ pc = "unwindC"
           /\ pc' = Head(stack).pc
           /\ stack' = Tail(stack)
           /\ UNCHANGED << orient, orient0, cntA, cntB, log, outcome, kind, np, 
                           ix, found, pr, sides >>

ContainsConnected == c0 \/ c1 \/ c2 \/ c3 \/ c4 \/ unwindC

s0 == /\ pc = "s0"
      /\ pr' = 1
      /\ pc' = "s1"
      /\ UNCHANGED << orient, orient0, cntA, cntB, log, outcome, kind, np, ix, 
                      found, sides, stack >>

s1 == /\ pc = "s1"
      /\ IF pr <= np
            THEN /\ \/ /\ IF sides # "B"
                             THEN /\ cntA' = cntA + 1
                                  /\ log' = Append(log, (<<"split", "A", cntA'>>))
                             ELSE /\ TRUE
                                  /\ UNCHANGED << cntA, log >>
                       /\ pc' = "s2"
                       /\ UNCHANGED outcome
                    \/ /\ outcome' = "raised"
                       /\ pc' = "unwindS"
                       /\ UNCHANGED <<cntA, log>>
            ELSE /\ pc' = "s3"
                 /\ UNCHANGED << cntA, log, outcome >>
      /\ UNCHANGED << orient, orient0, cntB, kind, np, ix, found, pr, sides, 
                      stack >>

s2 == /\ pc = "s2"
      /\ \/ /\ IF sides # "A"
                  THEN /\ cntB' = cntB + 1
                       /\ log' = Append(log, (<<"split", "B", cntB'>>))
                  ELSE /\ TRUE
                       /\ UNCHANGED << cntB, log >>
            /\ pr' = pr + 1
            /\ pc' = "s1"
            /\ UNCHANGED outcome
         \/ /\ outcome' = "raised"
            /\ pc' = "unwindS"
            /\ UNCHANGED <<cntB, log, pr>>
      /\ UNCHANGED << orient, orient0, cntA, kind, np, ix, found, sides, stack >>

s3 == /\ pc = "s3"
      /\ \/ /\ TRUE
            /\ pc' = "unwindS"
            /\ UNCHANGED outcome
         \/ /\ outcome' = "raised"
            /\ pc' = "unwindS"
      /\ UNCHANGED << orient, orient0, cntA, cntB, log, kind, np, ix, found, 
                      pr, sides, stack >>

unwindS == /\ pc = "unwindS"
           /\ pc' = Head(stack).pc
           /\ stack' = Tail(stack)
           /\ UNCHANGED << orient, orient0, cntA, cntB, log, outcome, kind, np, 
                           ix, found, pr, sides >>

SplitLoop == s0 \/ s1 \/ s2 \/ s3 \/ unwindS

b0 == /\ pc = "b0"
      /\ \/ /\ stack' = << [ procedure |->  "ContainsConnected",
                             pc        |->  "b1" ] >>
                         \o stack
            /\ pc' = "c0"
            /\ UNCHANGED outcome
         \/ /\ outcome' = "raised"
            /\ pc' = "unwindB"
            /\ stack' = stack
      /\ UNCHANGED << orient, orient0, cntA, cntB, log, kind, np, ix, found, 
                      pr, sides >>

b1 == /\ pc = "b1"
      /\ IF outcome = "raised"
            THEN /\ pc' = "unwindB"
            ELSE /\ pc' = "b2"
      /\ UNCHANGED << orient, orient0, cntA, cntB, log, outcome, kind, np, ix, 
                      found, pr, sides, stack >>

b2 == /\ pc = "b2"
      /\ stack' = << [ procedure |->  "SplitLoop",
                       pc        |->  "unwindB" ] >>
                   \o stack
      /\ pc' = "s0"
      /\ UNCHANGED << orient, orient0, cntA, cntB, log, outcome, kind, np, ix, 
                      found, pr, sides >>

unwindB == /\ pc = "unwindB"
           /\ pc' = Head(stack).pc
           /\ stack' = Tail(stack)
           /\ UNCHANGED << orient, orient0, cntA, cntB, log, outcome, kind, np, 
                           ix, found, pr, sides >>

BinOp == b0 \/ b1 \/ b2 \/ unwindB

m0 == /\ pc = "m0"
      /\ IF kind = "contains"
            THEN /\ stack' = << [ procedure |->  "ContainsConnected",
                                  pc        |->  "m1" ] >>
                              \o stack
                 /\ pc' = "c0"
                 /\ UNCHANGED << outcome, sides >>
            ELSE /\ IF kind = "binop"
                       THEN /\ sides' = "AB"
                            /\ stack' = << [ procedure |->  "BinOp",
                                             pc        |->  "m1" ] >>
                                         \o stack
                            /\ pc' = "b0"
                            /\ UNCHANGED outcome
                       ELSE /\ IF kind = "sub"
                                  THEN /\ sides' = "A"
                                       /\ stack' = << [ procedure |->  "BinOp",
                                                        pc        |->  "m1" ] >>
                                                    \o stack
                                       /\ pc' = "b0"
                                       /\ UNCHANGED outcome
                                  ELSE /\ IF kind = "xor"
                                             THEN /\ sides' = "A"
                                                  /\ stack' = << [ procedure |->  "BinOp",
                                                                   pc        |->  "m1" ] >>
                                                               \o stack
                                                  /\ pc' = "b0"
                                                  /\ UNCHANGED outcome
                                             ELSE /\ \/ /\ TRUE
                                                        /\ UNCHANGED outcome
                                                     \/ /\ outcome' = "raised"
                                                  /\ pc' = "m1"
                                                  /\ UNCHANGED << sides, stack >>
      /\ UNCHANGED << orient, orient0, cntA, cntB, log, kind, np, ix, found, 
                      pr >>

m1 == /\ pc = "m1"
      /\ IF kind = "xor" /\ outcome = "running"
            THEN /\ sides' = "B"
                 /\ ix' = 1
                 /\ found' = FALSE
                 /\ stack' = << [ procedure |->  "BinOp",
                                  pc        |->  "m2" ] >>
                              \o stack
                 /\ pc' = "b0"
            ELSE /\ pc' = "m2"
                 /\ UNCHANGED << ix, found, sides, stack >>
      /\ UNCHANGED << orient, orient0, cntA, cntB, log, outcome, kind, np, pr >>

m2 == /\ pc = "m2"
      /\ IF outcome = "running"
            THEN /\ outcome' = "returned"
            ELSE /\ TRUE
                 /\ UNCHANGED outcome
      /\ pc' = "Done"
      /\ UNCHANGED << orient, orient0, cntA, cntB, log, kind, np, ix, found, 
                      pr, sides, stack >>

(* Allow infinite stuttering to prevent deadlock on termination. *)
Terminating == pc = "Done" /\ UNCHANGED vars

Next == ContainsConnected \/ SplitLoop \/ BinOp \/ m0 \/ m1 \/ m2
           \/ Terminating

Spec == Init /\ [][Next]_vars

Termination == <>(pc = "Done")

\* END TRANSLATION

\* C11: whenever control is back at the client - returned OR raised - every operand denotes
\* the region it denoted before the call
Intact == (pc = "Done") => (orient = orient0)
\* the only in-place change a non-mutating call may leave behind is extra vertices
OnlySplits == \A kk \in 1..Len(log) : log[kk][1] = "split"
\* a call that returns has inserted the crossings of every curve pair
Complete == (pc = "Done" /\ outcome = "returned" /\ kind = "binop") => (cntA = np /\ cntB = np)
=============================================================================
