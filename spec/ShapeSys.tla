------------------------------ MODULE ShapeSys ------------------------------
(***************************************************************************)
(* The object heap of a client program using shapepy, one action per       *)
(* public call (the linearisation point of a sequential library is the     *)
(* call's return).                                                         *)
(*                                                                         *)
(* heap[id] : the abstract state of one shape object                       *)
(*    reg    region it denotes (integer over the Venn faces, see Plane)     *)
(*    frame  reduced word of abstract in-place transformations applied     *)
(*    splits redundant vertices of its boundary curves (grid points where  *)
(*           the boundary passes straight but a segment ends)              *)
(*    segk   TRUE iff the segmentation is predicted (splits is meaningful) *)
(*    warm   TRUE iff some query already filled the per-curve caches       *)
(* regs[r]  : which object the client's variable r refers to (0 = none)    *)
(* Ids 1 and 2 are the EmptyShape / WholeShape singletons.                 *)
(*                                                                         *)
(* The effect of an operator on the REGION is set algebra (C01).  Its      *)
(* effect on the REPRESENTATION follows the dispatch of                    *)
(* DefinedShape.__or__/__and__, BaseShape.__sub__/__xor__ and the          *)
(* singleton classes (Appendix B.1/B.2 of DESIGN.md): operands are split   *)
(* in place at their mutual crossings exactly when no short-cut fires.     *)
(* Representation state is in the model precisely so that TLC and the      *)
(* conformance harness can show that answers do not depend on it (C10)     *)
(* and that nothing else about an operand ever changes (C08).              *)
(***************************************************************************)
EXTENDS Plane

CONSTANTS Regs,        \* client variables, e.g. 1..3
          MaxObj,      \* ids 3..MaxObj are allocatable
          Ops,         \* subset of {"or","and","sub","xor","add","mul"}
          Gens,        \* abstract transformation generators (strings); {} = no frames
          MaxFrame,    \* maximal length of a frame word
          Acts         \* enabled action families

VARIABLES heap, regs, obs
svars == <<heap, regs, obs>>

EID == 1
WID == 2
ObjIds == 1..MaxObj
Free == [reg |-> -1, frame |-> <<>>, splits |-> {}, segk |-> TRUE, warm |-> FALSE]
Sing(rr) == [reg |-> rr, frame |-> <<>>, splits |-> {}, segk |-> TRUE, warm |-> FALSE]
IsLive(hh, id) == hh[id].reg >= 0

\* ---------------------------------------------------------------- frames
\* a generator and its inverse differ by case: "m1" / "M1"
InvGen(gg) == CASE gg = "m1" -> "M1" [] gg = "M1" -> "m1"
                [] gg = "m2" -> "M2" [] gg = "M2" -> "m2"
                [] gg = "s1" -> "S1" [] gg = "S1" -> "s1"
                [] gg = "s2" -> "S2" [] gg = "S2" -> "s2"
                [] gg = "r1" -> "R1" [] gg = "R1" -> "r1"
                [] gg = "r2" -> "R2" [] gg = "R2" -> "r2"
                [] gg = "f1" -> "F1" [] gg = "F1" -> "f1"
PushGen(fr, gg) == IF fr # <<>> /\ fr[Len(fr)] = InvGen(gg) THEN SubSeq(fr, 1, Len(fr)-1)
                   ELSE Append(fr, gg)

\* Affine maps of the generators with integer coefficients <<a,b,c,d,e,f>>:
\* (x,y) -> (a x + b y + c, d x + e y + f).  "f1" is a translation much larger than the
\* universe.  Frames whose words differ may still be the same map (r1 r1 r1 r1 = identity);
\* two objects are FAR APART when the images of the universe window under their maps are
\* disjoint: every bounded feature of one lies in the unbounded face of the other, so
\* containment and equality between them are still defined.
GenMap(gg) == CASE gg = "m1" -> <<1,0,3,0,1,-2>>    [] gg = "M1" -> <<1,0,-3,0,1,2>>
                [] gg = "s1" -> <<2,0,0,0,2,0>>
                [] gg = "r1" -> <<0,-1,0,1,0,0>>    [] gg = "R1" -> <<0,1,0,-1,0,0>>
                [] gg = "f1" -> <<1,0,1000,0,1,2000>> [] gg = "F1" -> <<1,0,-1000,0,1,-2000>>
                [] OTHER -> <<>>
ComposeMap(gm, mm) == <<gm[1]*mm[1] + gm[2]*mm[4], gm[1]*mm[2] + gm[2]*mm[5], gm[1]*mm[3] + gm[2]*mm[6] + gm[3],
                        gm[4]*mm[1] + gm[5]*mm[4], gm[4]*mm[2] + gm[5]*mm[5], gm[4]*mm[3] + gm[5]*mm[6] + gm[6]>>
RECURSIVE FrameMap(_)
FrameMap(fr) == IF fr = <<>> THEN <<1,0,0,0,1,0>>
                ELSE LET gm == GenMap(fr[Len(fr)])
                         rest == FrameMap(SubSeq(fr, 1, Len(fr) - 1))
                     IN IF gm = <<>> \/ rest = <<>> THEN <<>> ELSE ComposeMap(gm, rest)
SamePlace(fa, fb) == fa = fb \/ (FrameMap(fa) # <<>> /\ FrameMap(fa) = FrameMap(fb))
ImgBox(mm) ==
    LET cx == {XS[1], XS[PN+1]}  cy == {YS[1], YS[PN+1]}
        ix == {mm[1]*xx + mm[2]*yy + mm[3] : xx \in cx, yy \in cy}
        iy == {mm[4]*xx + mm[5]*yy + mm[6] : xx \in cx, yy \in cy}
    IN <<Min(ix), Max(ix), Min(iy), Max(iy)>>
Separated(ma, mb) == LET ba == ImgBox(ma)  bb == ImgBox(mb) IN
                     ba[2] < bb[1] \/ bb[2] < ba[1] \/ ba[4] < bb[3] \/ bb[4] < ba[3]
FarApart(oa, ob) == /\ oa.reg \notin {0, Full} /\ ob.reg \notin {0, Full}
                    /\ FrameMap(oa.frame) # <<>> /\ FrameMap(ob.frame) # <<>>
                    /\ Separated(FrameMap(oa.frame), FrameMap(ob.frame))
\* is rb (somewhere far away) contained in ra ?
FarSubset(rb, ra) == rb = 0 \/ (Unbounded(ra) /\ ~Unbounded(rb))

\* ------------------------------------------------------- region algebra
Apply(op, ra, rb) ==
    CASE op \in {"or","add"}  -> ROr(ra, rb)
      [] op \in {"and","mul"} -> RAnd(ra, rb)
      [] op = "sub"           -> RSub(ra, rb)
      [] op = "xor"           -> RXor(ra, rb)

Verts(oo)  == CornerPts(oo.reg) \cup oo.splits
\* redundant vertices a result inherits: vertices of the (already split) operands that lie
\* on the result's boundary and are not corners of it
InhSplits(rr, va, vb) == ((va \cup vb) \cap BdryPts(rr)) \ CornerPts(rr)

\* does the path-following algorithm run for `x & y` / `x | y` (x, y defined shapes)?
Reaches(ra, rb) == ~RSubset(ra, rb) /\ ~RSubset(rb, ra)

\* abstract result of a binary operator on two objects (records).  Returns
\* [reg, splits, segk : of the result;  sa, ka, sb, kb : new redundant-vertex sets and
\*  "segmentation predicted" flags of the operands].
BinEffect(op, oa, ob) ==
    LET ra == oa.reg  rb == ob.reg
        rr == Apply(op, ra, rb)
        cr == CrossPts(ra, rb)
        tc == ClassOf(ra, rb) = "T"
        kk == tc /\ oa.segk /\ ob.segk
        sing == ra \in {0, Full} \/ rb \in {0, Full}
        \* result is a singleton or a copy of (the complement of) operand src; nothing is split
        same(src) == [reg |-> rr, splits |-> IF rr \in {0, Full} THEN {} ELSE src.splits,
                      segk |-> rr \in {0, Full} \/ src.segk,
                      sa |-> oa.splits, ka |-> oa.segk, sb |-> ob.splits, kb |-> ob.segk]
    IN
    IF sing THEN
        same(IF ra \in {0, Full} THEN ob ELSE oa)
    ELSE IF op \in {"or","add","and","mul"} THEN
        IF RSubset(rb, ra) THEN same(IF op \in {"or","add"} THEN oa ELSE ob)
        ELSE IF RSubset(ra, rb) THEN same(IF op \in {"or","add"} THEN ob ELSE oa)
        ELSE LET sa2 == oa.splits \cup cr   sb2 == ob.splits \cup cr IN
             [reg |-> rr, segk |-> kk, sa |-> sa2, ka |-> oa.segk /\ tc, sb |-> sb2, kb |-> ob.segk /\ tc,
              splits |-> InhSplits(rr, CornerPts(ra) \cup sa2, CornerPts(rb) \cup sb2)]
    ELSE IF op = "sub" THEN
        \* a & (~b) with a temporary complement t of b: short-cuts  t in a  /  a in t
        IF RSubset(RNot(rb), ra) THEN same(ob)      \* copy of the temporary
        ELSE IF RSubset(ra, RNot(rb)) THEN same(oa) \* copy of a
        ELSE LET sa2 == oa.splits \cup cr IN
             [reg |-> rr, segk |-> kk, sa |-> sa2, ka |-> oa.segk /\ tc, sb |-> ob.splits, kb |-> ob.segk,
              splits |-> InhSplits(rr, CornerPts(ra) \cup sa2, CornerPts(rb) \cup ob.splits \cup cr)]
    ELSE \* xor = (a - b) | (b - a): each difference splits its left operand when it runs
        LET runs == ~RSubset(RNot(rb), ra) /\ ~RSubset(ra, RNot(rb))
            sa2 == IF runs THEN oa.splits \cup cr ELSE oa.splits
            sb2 == IF runs THEN ob.splits \cup cr ELSE ob.splits
            d1 == RSub(ra, rb)  d2 == RSub(rb, ra)
        IN [reg |-> rr, sa |-> sa2, ka |-> oa.segk /\ (tc \/ ~runs), sb |-> sb2, kb |-> ob.segk /\ (tc \/ ~runs),
            \* the final union joins two pieces that touch at every crossing point
            segk |-> kk /\ (d1 = 0 \/ d2 = 0 \/ ClassOf(d1, d2) = "T"),
            splits |-> InhSplits(rr, CornerPts(ra) \cup sa2, CornerPts(rb) \cup sb2)]

\* ------------------------------------------------------------ allocation
FreeIds(hh) == {id \in 3..MaxObj : ~IsLive(hh, id)}
NewId(hh) == CHOOSE id \in FreeIds(hh) : \A i2 \in FreeIds(hh) : id <= i2
\* garbage collection keeps states canonical: an object nobody refers to is freed
Collect(hh, rg) == [id \in ObjIds |-> IF id > 2 /\ \A rr \in Regs : rg[rr] # id THEN Free ELSE hh[id]]

\* store object record `oo` (or a singleton when its region is empty / whole) into
\* register dd, on top of heap hh
Store(hh, dd, oo) ==
    IF oo.reg = 0 THEN <<hh, [regs EXCEPT ![dd] = EID]>>
    ELSE IF oo.reg = Full THEN <<hh, [regs EXCEPT ![dd] = WID]>>
    ELSE LET rg0 == [regs EXCEPT ![dd] = 0]
             h0 == Collect(hh, rg0)
             id == NewId(h0)
         IN <<[h0 EXCEPT ![id] = oo], [rg0 EXCEPT ![dd] = id]>>
CanAlloc(dd) == Cardinality({id \in 3..MaxObj : IsLive(heap, id) /\ \E rr \in Regs \ {dd} : regs[rr] = id}) < MaxObj - 2

Commit(pair, ob2) ==
    /\ heap' = Collect(pair[1], pair[2])
    /\ regs' = pair[2]
    /\ obs' = ob2

Held(rr) == regs[rr] # 0
Obj(rr)  == heap[regs[rr]]
Defined(rr) == Held(rr) /\ regs[rr] > 2

\* ---------------------------------------------------------------- actions
SInit == /\ heap = [id \in ObjIds |-> IF id = EID THEN Sing(0) ELSE IF id = WID THEN Sing(Full) ELSE Free]
         /\ regs = [rr \in Regs |-> 0]
         /\ obs = [call |-> "init"]

\* Primitive.polygon / SimpleShape(JordanCurve.from_*): atom ia or its complement
MakeAtom(dd, ia, neg) ==
    /\ "make" \in Acts /\ CanAlloc(dd)
    /\ LET rr == IF neg THEN RNot(AtomReg(ia)) ELSE AtomReg(ia)
           oo == [reg |-> rr, frame |-> <<>>, splits |-> {}, segk |-> TRUE, warm |-> FALSE]
       IN Commit(Store(heap, dd, oo), [call |-> "make", d |-> dd, atom |-> ia, neg |-> neg, res |-> rr])
\* direct constructors (C19): SimpleShape(jordan), ConnectedShape([...]), DisjointShape([...])
\* assembled by the client from the boundary loops of a pinch-free region
MakeRegion(dd, rr) ==
    /\ "mkreg" \in Acts /\ CanAlloc(dd) /\ ~Pinch(rr)
    /\ LET oo == [reg |-> rr, frame |-> <<>>, splits |-> {}, segk |-> TRUE, warm |-> FALSE]
       IN Commit(Store(heap, dd, oo), [call |-> "mkreg", d |-> dd, res |-> rr])
MakeEmpty(dd) == /\ "make" \in Acts
                 /\ Commit(<<heap, [regs EXCEPT ![dd] = EID]>>, [call |-> "empty", d |-> dd])
MakeWhole(dd) == /\ "make" \in Acts
                 /\ Commit(<<heap, [regs EXCEPT ![dd] = WID]>>, [call |-> "whole", d |-> dd])

SameFrame(oa, ob) == oa.reg \in {0, Full} \/ ob.reg \in {0, Full} \/ SamePlace(oa.frame, ob.frame)

Bin(op, dd, aa, bb) ==
    /\ "bin" \in Acts /\ op \in Ops /\ Held(aa) /\ Held(bb) /\ CanAlloc(dd)
    /\ SameFrame(Obj(aa), Obj(bb))
    /\ LET oa == Obj(aa)  ob == Obj(bb)
           ef == BinEffect(op, oa, ob)
           fr == IF oa.reg \in {0, Full} THEN ob.frame ELSE oa.frame
           \* operands: region, frame unchanged; segmentation may grow at the crossings;
           \* the operator's containment tests and point queries warm the caches
           h1 == [heap EXCEPT ![regs[aa]] = IF regs[aa] <= 2 THEN @ ELSE [@ EXCEPT !.splits = ef.sa, !.segk = ef.ka, !.warm = @ \/ regs[bb] > 2],
                              ![regs[bb]] = IF regs[bb] <= 2 THEN @
                                            ELSE IF regs[aa] = regs[bb] THEN [@ EXCEPT !.splits = ef.sa \cup ef.sb, !.segk = ef.ka /\ ef.kb, !.warm = TRUE]
                                            ELSE [@ EXCEPT !.splits = ef.sb, !.segk = ef.kb, !.warm = @ \/ regs[aa] > 2]]
           oo == [reg |-> ef.reg, frame |-> fr, splits |-> ef.splits, segk |-> ef.segk, warm |-> FALSE]
       IN Commit(Store(h1, dd, oo),
                 [call |-> "bin", op |-> op, d |-> dd, a |-> aa, b |-> bb, res |-> ef.reg,
                  cls |-> ClassOf(oa.reg, ob.reg), segok |-> (oa.segk /\ ob.segk)])

\* ~a and -a : a fresh object (or the other singleton)
Inv(dd, aa, how) ==
    /\ "inv" \in Acts /\ how \in {"inv","neg"} /\ Held(aa) /\ CanAlloc(dd)
    /\ LET oa == Obj(aa)
           oo == [oa EXCEPT !.reg = RNot(oa.reg), !.warm = FALSE]
       IN Commit(Store(heap, dd, oo), [call |-> how, d |-> dd, a |-> aa, res |-> oo.reg])

\* copy.copy / copy.deepcopy : singletons copy to themselves
Copy(dd, aa, how) ==
    /\ "copy" \in Acts /\ how \in {"copy","deepcopy"} /\ Held(aa) /\ CanAlloc(dd)
    /\ LET oa == Obj(aa) IN
       Commit(Store(heap, dd, [oa EXCEPT !.warm = FALSE]), [call |-> how, d |-> dd, a |-> aa, res |-> oa.reg])

\* SimpleShape.invert(): in place, simple shapes only, returns the same object
InvertInPlace(aa) ==
    /\ "invert" \in Acts /\ Defined(aa) /\ Kind(Obj(aa).reg) = "S" /\ ~Pinch(Obj(aa).reg)
    /\ Commit(<<[heap EXCEPT ![regs[aa]].reg = RNot(@), ![regs[aa]].warm = FALSE], regs>>,
              [call |-> "invert", a |-> aa, res |-> RNot(Obj(aa).reg)])

\* move / scale / rotate: in place, return the same object (which the client may bind
\* to another variable: dd)
Transform(dd, aa, gg) ==
    /\ "transform" \in Acts /\ gg \in Gens /\ Defined(aa)
    /\ Len(PushGen(Obj(aa).frame, gg)) <= MaxFrame
    /\ Commit(<<[heap EXCEPT ![regs[aa]].frame = PushGen(@, gg)], [regs EXCEPT ![dd] = regs[aa]]>>,
              [call |-> "transform", d |-> dd, a |-> aa, gen |-> gg])

\* an in-place transformation with invalid arguments raises and changes nothing
BadTransform(aa, what) ==
    /\ "badtransform" \in Acts /\ what \in {"move","scale","rotate"} /\ Defined(aa)
    /\ Commit(<<heap, regs>>, [call |-> "badtransform", a |-> aa, what |-> what])

\* the client binds another variable to the same object
Alias(dd, aa) ==
    /\ "alias" \in Acts /\ Held(aa) /\ dd # aa /\ regs[dd] # regs[aa]
    /\ Commit(<<heap, [regs EXCEPT ![dd] = regs[aa]]>>, [call |-> "alias", d |-> dd, a |-> aa])
Drop(dd) ==
    /\ "drop" \in Acts /\ Held(dd)
    /\ Commit(<<heap, [regs EXCEPT ![dd] = 0]>>, [call |-> "drop", d |-> dd])

\* queries: the answer is a function of the current geometry only (C10); the only thing a
\* query may change is the cache flag
QSubset(aa, bb) ==     \* `b in a`
    /\ "query" \in Acts /\ Held(aa) /\ Held(bb) /\ (SameFrame(Obj(aa), Obj(bb)) \/ FarApart(Obj(aa), Obj(bb)))
    /\ Commit(<<[heap EXCEPT ![regs[aa]].warm = (regs[aa] > 2), ![regs[bb]].warm = (regs[bb] > 2)], regs>>,
              [call |-> "in", a |-> aa, b |-> bb, cls |-> ClassOf(Obj(aa).reg, Obj(bb).reg), same |-> (regs[aa] = regs[bb]),
               ans |-> IF SameFrame(Obj(aa), Obj(bb)) THEN RSubset(Obj(bb).reg, Obj(aa).reg) ELSE FarSubset(Obj(bb).reg, Obj(aa).reg)])
QEq(aa, bb) ==
    /\ "query" \in Acts /\ Held(aa) /\ Held(bb) /\ (SameFrame(Obj(aa), Obj(bb)) \/ FarApart(Obj(aa), Obj(bb)))
    /\ Commit(<<[heap EXCEPT ![regs[aa]].warm = (regs[aa] > 2), ![regs[bb]].warm = (regs[bb] > 2)], regs>>,
              [call |-> "eq", a |-> aa, b |-> bb, cls |-> ClassOf(Obj(aa).reg, Obj(bb).reg), same |-> (regs[aa] = regs[bb]),
               ans |-> SameFrame(Obj(aa), Obj(bb)) /\ Obj(aa).reg = Obj(bb).reg])
\* a binary query between two shapes whose relative position the model does not interpret
\* (different, overlapping frames): the answer is not constrained, but like every query it
\* must leave its operands alone - and it exercises whatever the implementation caches
QProbe(aa, bb) ==
    /\ "query" \in Acts /\ Defined(aa) /\ Defined(bb)
    /\ ~SameFrame(Obj(aa), Obj(bb)) /\ ~FarApart(Obj(aa), Obj(bb))
    /\ Commit(<<[heap EXCEPT ![regs[aa]].warm = TRUE, ![regs[bb]].warm = TRUE], regs>>,
              [call |-> "probe", a |-> aa, b |-> bb])
QMeasure(aa) ==        \* area, moments, boundary length and orientation, box, kind
    /\ "query" \in Acts /\ Held(aa)
    /\ Commit(<<[heap EXCEPT ![regs[aa]].warm = (regs[aa] > 2)], regs>>,
              [call |-> "measure", a |-> aa, reg |-> Obj(aa).reg, frame |-> Obj(aa).frame])

SNext ==
    \/ \E dd \in Regs, ia \in 1..NAtoms, neg \in BOOLEAN : MakeAtom(dd, ia, neg)
    \/ \E dd \in Regs, rr \in 0..Full : MakeRegion(dd, rr)
    \/ \E dd \in Regs : MakeEmpty(dd) \/ MakeWhole(dd)
    \/ \E op \in Ops, dd \in Regs, aa \in Regs, bb \in Regs : Bin(op, dd, aa, bb)
    \/ \E dd \in Regs, aa \in Regs, how \in {"inv","neg"} : Inv(dd, aa, how)
    \/ \E dd \in Regs, aa \in Regs, how \in {"copy","deepcopy"} : Copy(dd, aa, how)
    \/ \E aa \in Regs : InvertInPlace(aa)
    \/ \E dd \in Regs, aa \in Regs, gg \in Gens : Transform(dd, aa, gg)
    \/ \E aa \in Regs, what \in {"move","scale","rotate"} : BadTransform(aa, what)
    \/ \E dd \in Regs, aa \in Regs : Alias(dd, aa)
    \/ \E dd \in Regs : Drop(dd)
    \/ \E aa \in Regs, bb \in Regs : QSubset(aa, bb) \/ QEq(aa, bb) \/ QProbe(aa, bb)
    \/ \E aa \in Regs : QMeasure(aa)

SSpec == SInit /\ [][SNext]_svars

\* -------------------------------------------------------------- properties
TypeOK ==
    /\ \A id \in ObjIds : heap[id].reg \in -1..Full
    /\ \A rr \in Regs : regs[rr] \in 0..MaxObj
    /\ \A rr \in Regs : regs[rr] # 0 => IsLive(heap, regs[rr])

\* C06: the empty and the whole region are only ever represented by the singletons;
\* every other object is referenced, and its redundant vertices lie on its boundary
Canonical ==
    /\ heap[EID].reg = 0 /\ heap[WID].reg = Full
    /\ \A id \in 3..MaxObj : IsLive(heap, id) =>
          /\ heap[id].reg \notin {0, Full}
          /\ \E rr \in Regs : regs[rr] = id
          /\ heap[id].segk => heap[id].splits \subseteq (BdryPts(heap[id].reg) \ CornerPts(heap[id].reg))

\* C08 (action property): a step changes the region / frame of an object only if it is the
\* in-place target of the call; operators, queries and copies never do.  Ids may be
\* re-used after garbage collection, so the property follows registers.
Target == IF obs'.call \in {"invert", "transform"} THEN {regs[obs'.a]} ELSE {}
OperandsUnchanged ==
    [][\A rr \in Regs :
          (regs[rr] # 0 /\ regs'[rr] = regs[rr] /\ regs[rr] \notin Target
             /\ ~("d" \in DOMAIN obs' /\ obs'.d = rr))
          => /\ heap'[regs[rr]].reg = heap[regs[rr]].reg
             /\ heap'[regs[rr]].frame = heap[regs[rr]].frame
             /\ heap[regs[rr]].splits \subseteq heap'[regs[rr]].splits]_svars

\* C08: a call returns either a fresh object, a singleton, or (in-place transformations)
\* its own operand -- never another live object
FreshResults ==
    [][("d" \in DOMAIN obs' /\ obs'.call \notin {"alias", "transform", "drop"} /\ regs'[obs'.d] > 2)
          => \A rr \in Regs \ {obs'.d} : regs'[rr] # regs'[obs'.d]]_svars

\* C01/C06 region level: whatever was computed equals the set-theoretic result
ResultIsSetAlgebra ==
    [][obs'.call = "bin" => heap'[regs'[obs'.d]].reg = Apply(obs'.op, heap[regs[obs'.a]].reg, heap[regs[obs'.b]].reg)]_svars

\* C03 consequences at the level of the model: b in a  =>  a|b = a  and  a&b = b
SubsetLaw ==
    [][(obs'.call = "in" /\ obs'.ans /\ SameFrame(heap[regs[obs'.a]], heap[regs[obs'.b]])) =>
         /\ ROr(heap[regs[obs'.a]].reg, heap[regs[obs'.b]].reg) = heap[regs[obs'.a]].reg
         /\ RAnd(heap[regs[obs'.a]].reg, heap[regs[obs'.b]].reg) = heap[regs[obs'.b]].reg]_svars

\* simulation constraint: do not waste the first steps on singletons
NoTrivialStart == TLCGet("level") > 3 \/ \A rr \in Regs : regs[rr] \notin {EID, WID}
\* simulation constraint: stay inside the domain where C01 demands that operators succeed
\* (operands meeting transversally, with predicted segmentation); degenerate operand pairs
\* are covered by the deterministic one-step corpus
TransversalOnly == obs.call = "bin" => (obs.cls = "T" /\ obs.segok)
\* binary queries between two DIFFERENT objects whose boundaries coincide or touch are answered
\* by tolerance in floating point (after an inexact move the "same" region is not exactly the
\* same); they are covered, without history, by the deterministic query corpus
QueryTransversal == obs.call \in {"in", "eq"} => (obs.cls = "T" \/ obs.same)
SimDomain == NoTrivialStart /\ TransversalOnly /\ QueryTransversal
\* history simulations: build the objects first, then only transform / query / operate
HistDomain ==
    /\ SimDomain
    /\ (TLCGet("level") <= Cardinality(Regs) + 1) => obs.call \in {"init", "mkreg"}
    /\ (TLCGet("level") > Cardinality(Regs) + 1) =>
          /\ obs.call \notin {"mkreg", "make", "empty", "whole"}
          /\ \A r1 \in Regs : regs[r1] > 2 /\ \A r2 \in Regs : (r1 # r2) => regs[r1] # regs[r2]
    /\ ("d" \in DOMAIN obs /\ obs.call = "transform") => obs.d = obs.a
\* bound for simulation / exhaustive runs
DepthBound == TLCGet("level") <= 40
=============================================================================
