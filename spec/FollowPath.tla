----------------------------- MODULE FollowPath -----------------------------
(***************************************************************************)
(* Code-shaped model of shapepy's path-following boolean operators         *)
(* (FollowPath.or_shapes / and_shapes, DESIGN.md appendix B.2-B.5) on the  *)
(* grid universe, checked by TLC against the declarative layer (Plane).    *)
(*                                                                         *)
(* Curves are cyclic sequences of vertices; a segment is the straight run  *)
(* between two consecutive vertices.  The algorithm:                       *)
(*  1 split both operands at their mutual crossings (vertices += crossings)*)
(*  2 classify every segment by its mid-point against the other operand:   *)
(*    `or` keeps the segments NOT in the closed other region, `and` keeps   *)
(*    those in the open other region                                        *)
(*  3 from every kept segment follow the path: append the segment; at its   *)
(*    end point switch to another curve that passes through that point      *)
(*    (first candidate) and to its segment starting there, else go on with  *)
(*    the next segment of the same curve; stop when a segment repeats       *)
(*  4 drop walks that are rotations of one another; assemble (the code      *)
(*    asserts that consecutive segments are connected)                      *)
(* Theorem (ThmFollowPath): for operands meeting transversally the          *)
(* assembled curves are exactly the boundary loops of the set-theoretic    *)
(* result.  The model is also evaluated on touching operands (class P) to   *)
(* show where the algorithm breaks (RefutedOnTouching).                     *)
(***************************************************************************)
EXTENDS Plane

VARIABLES phz, rfz, rgz
fvars == <<phz, rfz, rgz>>
FInit == phz = 0 /\ rfz = 0 /\ rgz = 0
FNext == \/ phz = 0 /\ phz' = 1 /\ rfz' \in 0..Full /\ rgz' = 0
         \/ phz = 1 /\ phz' = 2 /\ rgz' \in 0..Full /\ rfz' = rfz
FSpec == FInit /\ [][FNext]_fvars

Dist(pa, pb) == (IF pa[1] > pb[1] THEN pa[1] - pb[1] ELSE pb[1] - pa[1]) + (IF pa[2] > pb[2] THEN pa[2] - pb[2] ELSE pb[2] - pa[2])
\* vertices of a loop with the extra split points ss inserted along its edges
VertsOf(lp, ss) ==
    LET nn == Len(lp)
        edgePts(kk) == LET pa == lp[kk]  pb == lp[(kk % nn) + 1]
                           mid == {pt \in ss : InsideEdge(pt, pa, pb)}
                       IN <<pa>> \o SetToSortSeq(mid, LAMBDA xa, xb : Dist(pa, xa) < Dist(pa, xb))
        RECURSIVE cat(_)
        cat(kk) == IF kk > nn THEN <<>> ELSE edgePts(kk) \o cat(kk + 1)
    IN cat(1)
\* all curves of an operand, split at the crossing points cr
CurvesOf(ra, cr) == LET ls == SetToSeq(Loops(ra)) IN [kk \in 1..Len(ls) |-> VertsOf(ls[kk], cr)]

SegStart(cv, jj) == cv[jj]
SegEnd(cv, jj) == cv[(jj % Len(cv)) + 1]
\* first unit edge of a segment (as an undirected edge) - every unit edge of a segment has
\* the same position with respect to the other operand once the operands are split
Sign(vv) == IF vv > 0 THEN 1 ELSE IF vv < 0 THEN -1 ELSE 0
FirstUnit(cv, jj) == LET pa == SegStart(cv, jj)  pb == SegEnd(cv, jj)
                     IN {pa, <<pa[1] + Sign(pb[1] - pa[1]), pa[2] + Sign(pb[2] - pa[2])>>}
\* does the point lie on the curve (on one of its vertices or inside one of its segments) ?
OnCurve(pt, cv) == \E jj \in 1..Len(cv) : pt = cv[jj] \/ InsideEdge(pt, SegStart(cv, jj), SegEnd(cv, jj))

\* the walk: state = <<curve index, segment index>>; acc = visited pairs in order; the code
\* appends the current segment, then decides where to go on
RECURSIVE PursueF(_,_,_,_)
PursueF(cvs, ci, si, acc) ==
    LET sj == ((si - 1) % Len(cvs[ci])) + 1 IN
    IF \E kk \in 1..Len(acc) : acc[kk] = <<ci, sj>> THEN acc
    ELSE LET acc2 == Append(acc, <<ci, sj>>)
             lastpt == SegEnd(cvs[ci], sj)
             poss == {c2 \in 1..Len(cvs) : c2 # ci /\ OnCurve(lastpt, cvs[c2])}
         IN IF poss = {} THEN PursueF(cvs, ci, sj + 1, acc2)
            ELSE LET c2 == CHOOSE cc \in poss : \A c3 \in poss : cc <= c3
                     starts == {j2 \in 1..Len(cvs[c2]) : cvs[c2][j2] = lastpt}
                     j2 == IF starts = {} THEN sj ELSE CHOOSE jj \in starts : \A j3 \in starts : jj <= j3
                 IN PursueF(cvs, c2, j2, acc2)

\* vertex cycle of a walk and its closure (from_segments asserts it)
WalkVerts(cvs, wk) == [kk \in 1..Len(wk) |-> SegStart(cvs[wk[kk][1]], wk[kk][2])]
WalkClosed(cvs, wk) == \A kk \in 1..Len(wk) :
    SegEnd(cvs[wk[kk][1]], wk[kk][2]) = SegStart(cvs[wk[(kk % Len(wk)) + 1][1]], wk[(kk % Len(wk)) + 1][2])

\* the operator: returns [ok |-> closure held for every walk, loops |-> set of corner cycles]
Follow(isOr, ra, rb) ==
    LET cr == CrossPts(ra, rb)
        ca == CurvesOf(ra, cr)
        cb == CurvesOf(rb, cr)
        cvs == ca \o cb
        na == Len(ca)
        other(ci) == IF ci <= na THEN rb ELSE ra
        keep(ci, sj) == LET ec == EdgeClass(FirstUnit(cvs[ci], sj), other(ci))
                        IN IF isOr THEN ec = "out" ELSE ec = "in"
        startsAll == {<<ci, sj>> \in (1..Len(cvs)) \X (1..60) : sj <= Len(cvs[ci]) /\ keep(ci, sj)}
        walks == {PursueF(cvs, st[1], st[2], <<>>) : st \in startsAll}
        cyc(wk) == RotateToLeast(LET vs == WalkVerts(cvs, wk)  cs == CornersOf(vs) IN [kk \in 1..Len(cs) |-> cs[kk][1]])
    IN [ok |-> \A wk \in walks : WalkClosed(cvs, wk),
        loops |-> {cyc(wk) : wk \in walks},
        nwalks |-> Cardinality(walks)]

F2(PP(_,_)) == phz = 2 => PP(rfz, rgz)
Proper(ra) == ra \notin {0, Full} /\ ~Pinch(ra)
ThmFollowOr  == F2(LAMBDA ra, rb : (Proper(ra) /\ Proper(rb) /\ ClassOf(ra, rb) = "T") =>
                     LET fr == Follow(TRUE, ra, rb) IN fr.ok /\ fr.loops = Loops(ROr(ra, rb)))
ThmFollowAnd == F2(LAMBDA ra, rb : (Proper(ra) /\ Proper(rb) /\ ClassOf(ra, rb) = "T") =>
                     LET fr == Follow(FALSE, ra, rb) IN fr.ok /\ fr.loops = Loops(RAnd(ra, rb)))
\* A - B = A & (~B): the complement has the same boundary, so the pair stays transversal
ThmFollowSub == F2(LAMBDA ra, rb : (Proper(ra) /\ Proper(rb) /\ ClassOf(ra, rb) = "T") =>
                     LET fr == Follow(FALSE, ra, RNot(rb)) IN fr.ok /\ fr.loops = Loops(RSub(ra, rb)))
\* where the operands only touch (class P, pinch-free) the algorithm is NOT correct in general:
\* TLC is expected to refute this (kept as the model-level explanation of finding F-C01-nontransversal)
RefutedOnTouching == F2(LAMBDA ra, rb : (Proper(ra) /\ Proper(rb) /\ ClassOf(ra, rb) = "P" /\ ~Pinch(ROr(ra, rb))
                                          /\ ~RSubset(ra, rb) /\ ~RSubset(rb, ra)) =>
                     LET fr == Follow(TRUE, ra, rb) IN fr.ok /\ fr.loops = Loops(ROr(ra, rb)))
=============================================================================
