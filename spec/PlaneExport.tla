----------------------------- MODULE PlaneExport -----------------------------
(***************************************************************************)
(* Serialises the tables of Plane for one universe to JSON so that the     *)
(* conformance harness takes every expected value (kind, loops, vertices,  *)
(* moments, pair classes, crossing points) from the specification.         *)
(* Output file: environment variable VERIF_OUT.                            *)
(***************************************************************************)
EXTENDS Plane, Json, IOUtils

ExpSeq == << <<0,0>>, <<1,0>>, <<0,1>>, <<2,0>>, <<1,1>>, <<0,2>>, <<3,0>>, <<2,1>>, <<1,2>>, <<0,3>>,
             <<4,0>>, <<3,1>>, <<2,2>>, <<1,3>>, <<0,4>> >>
ASSUME {ExpSeq[kk] : kk \in 1..Len(ExpSeq)} = Exps

PassStr(nn) == [jj \in 1..(PN+1) |-> [ii \in 1..(PN+1) |-> RT(nn).pass[<<ii-1, jj-1>>]]]

RegRow(nn) ==
    [reg    |-> nn,
     kind   |-> Kind(nn),
     pinch  |-> Pinch(nn),
     pinchpts |-> SetToSeq(RT(nn).pinchpts),
     nloops |-> NLoops(nn),
     ncomp  |-> RT(nn).ncomp,
     nco    |-> RT(nn).nco,
     loops  |-> SetToSeq(Loops(nn)),
     pass   |-> PassStr(nn),
     plot   |-> [fills |-> PlotPlan(nn).fills, outlines |-> PlotPlan(nn).outlines, bounded |-> PlotPlan(nn).bounded,
                 corners |-> SetToSeq(PlotPlan(nn).corners)],
     mom    |-> [kk \in 1..Len(ExpSeq) |-> Moment(nn, ExpSeq[kk])]]

PairRow(ra, rb) == [cls |-> ClassOf(ra, rb), cross |-> SetToSeq(CrossPts(ra, rb))]

WithPairs == NR <= 256

Export ==
    [name    |-> IOEnv.VERIF_UNIVERSE,
     N       |-> PN,
     NF      |-> NF,
     faces   |-> [kk \in 1..NF |-> SetToSeq(FaceSeq[kk])],
     xs      |-> XS,
     ys      |-> YS,
     expseq  |-> ExpSeq,
     atoms   |-> [ia \in 1..NAtoms |-> AtomReg(ia)],
     npatches |-> NP,
     regions |-> [n1 \in 1..NR |-> RegRow(n1-1)],
     pairs   |-> IF WithPairs THEN [n1 \in 1..NR |-> [n2 \in 1..NR |-> PairRow(n1-1, n2-1)]] ELSE <<>>]

ASSUME JsonSerialize(IOEnv.VERIF_OUT, Export)
=============================================================================
