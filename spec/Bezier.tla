------------------------------- MODULE Bezier -------------------------------
(***************************************************************************)
(* Exact Bezier calculus on scaled integers (C18).  A parameter is a       *)
(* rational tt = <<n, d>> (0 <= n <= d); B_{i,p}(n/d) * d^p is the integer *)
(* C(p,i) n^i (d-n)^(p-i).  TLC checks, for every degree 1..MaxDeg, at     *)
(* p+1 or more rational nodes (a polynomial identity of degree p that      *)
(* holds at p+1 nodes holds for all t):                                    *)
(*  - the closed form of Math.bezier_caract_matrix is the Bernstein-to-    *)
(*    monomial matrix;                                                     *)
(*  - the derivative control points p(P_{i+1}-P_i) differentiate;          *)
(*  - the de Casteljau left/right control points re-parametrise the curve. *)
(* and exports expected values for control polygons with small integer     *)
(* coordinates, which the harness replays through segment(t),              *)
(* derivate(k)(t), split(nodes) with exact Fraction comparison.            *)
(***************************************************************************)
EXTENDS Integers, Sequences, FiniteSets, TLC, Folds, Json, IOUtils, SequencesExt

CONSTANTS MaxDeg, Nodes, Polys   \* Nodes: set of <<n,d>>; Polys: sequence of control polygons (sequences of integers)

Pow(bb, ee) == IF ee = 0 THEN 1 ELSE bb^ee
RECURSIVE Fact(_)
Fact(nn) == IF nn <= 1 THEN 1 ELSE nn * Fact(nn - 1)
Comb(nn, kk) == Fact(nn) \div (Fact(kk) * Fact(nn - kk))
Sum(ff, ss) == FoldSet(LAMBDA xx, acc : acc + ff[xx], 0, ss)

\* d^p * B_{i,p}(n/d)
BernNum(ii, pp, tt) == Comb(pp, ii) * Pow(tt[1], ii) * Pow(tt[2] - tt[1], pp - ii)

\* Math.bezier_caract_matrix(p)[i][j] = coefficient of x^(p-j) in B_{i,p}(x)   (closed form of the code)
Caract(pp, ii, jj) == IF jj > pp - ii THEN 0
                      ELSE (IF (pp + ii + jj) % 2 = 1 THEN -1 ELSE 1) * Comb(pp, ii) * Comb(pp - ii, jj)
\* d^p * sum_j M[i][j] (n/d)^(p-j)
CaractEval(pp, ii, tt) == Sum([jj \in 0..pp |-> Caract(pp, ii, jj) * Pow(tt[1], pp - jj) * Pow(tt[2], jj)], 0..pp)

ThmCaract == \A pp \in 1..MaxDeg : \A ii \in 0..pp : \A tt \in Nodes : CaractEval(pp, ii, tt) = BernNum(ii, pp, tt)
ThmPartition == \A pp \in 1..MaxDeg : \A tt \in Nodes : Sum([ii \in 0..pp |-> BernNum(ii, pp, tt)], 0..pp) = Pow(tt[2], pp)

\* curve with scalar control points cp (sequence, 1-based: cp[i+1] = P_i); value * d^p
EvalNum(cp, tt) == LET pp == Len(cp) - 1 IN Sum([ii \in 0..pp |-> cp[ii+1] * BernNum(ii, pp, tt)], 0..pp)
\* control points of the derivative
DerivCP(cp) == LET pp == Len(cp) - 1 IN [ii \in 1..pp |-> pp * (cp[ii+1] - cp[ii])]
\* B'_{i,p} = p (B_{i-1,p-1} - B_{i,p-1});  value * d^(p-1)
DBernNum(ii, pp, tt) == pp * ((IF ii >= 1 THEN BernNum(ii-1, pp-1, tt) ELSE 0) - (IF ii <= pp-1 THEN BernNum(ii, pp-1, tt) ELSE 0))
ThmDeriv == \A kk \in 1..Len(Polys) : \A tt \in Nodes :
               LET cp == Polys[kk]  pp == Len(cp) - 1 IN
               EvalNum(DerivCP(cp), tt) = Sum([ii \in 0..pp |-> cp[ii+1] * DBernNum(ii, pp, tt)], 0..pp)

\* de Casteljau at tt: left piece control points L_k = sum_{i<=k} B_{i,k}(t) P_i (scaled by d^k),
\* right piece R_k = sum_i B_{i,p-k}(t) P_{k+i} (scaled by d^(p-k))
LeftNum(cp, kk, tt)  == Sum([ii \in 0..kk |-> cp[ii+1] * BernNum(ii, kk, tt)], 0..kk)
RightNum(cp, kk, tt) == LET pp == Len(cp) - 1 IN Sum([ii \in 0..(pp-kk) |-> cp[kk+ii+1] * BernNum(ii, pp-kk, tt)], 0..(pp-kk))
\* left(s) = curve(t*s): compare at nodes s, everything scaled to the common denominator (d_t d_s)^p
ThmSplitLeft == \A kk \in 1..Len(Polys) : \A tt \in Nodes : \A ss \in Nodes :
    LET cp == Polys[kk]  pp == Len(cp) - 1
        lhs == Sum([ii \in 0..pp |-> LeftNum(cp, ii, tt) * Pow(tt[2], pp - ii) * BernNum(ii, pp, ss)], 0..pp)   \* d_t^p d_s^p left(s)
        rhs == EvalNum(cp, <<tt[1] * ss[1], tt[2] * ss[2]>>)                                                   \* (d_t d_s)^p curve(ts)
    IN lhs = rhs
ThmSplitRight == \A kk \in 1..Len(Polys) : \A tt \in Nodes : \A ss \in Nodes :
    LET cp == Polys[kk]  pp == Len(cp) - 1
        lhs == Sum([ii \in 0..pp |-> RightNum(cp, ii, tt) * Pow(tt[2], ii) * BernNum(ii, pp, ss)], 0..pp)
        \* t + s(1-t) = (n_t d_s + n_s (d_t - n_t)) / (d_t d_s)
        rhs == EvalNum(cp, <<tt[1] * ss[2] + ss[1] * (tt[2] - tt[1]), tt[2] * ss[2]>>)
    IN lhs = rhs

ASSUME ThmCaract /\ ThmPartition /\ ThmDeriv /\ ThmSplitLeft /\ ThmSplitRight

\* ------------------------------------------------------------------ export
NodeSeq == SetToSeq(Nodes)
Export ==
    [caract |-> [pp \in 1..MaxDeg |-> [ii \in 1..(pp+1) |-> [jj \in 1..(pp+1) |-> Caract(pp, ii-1, jj-1)]]],
     nodes  |-> NodeSeq,
     cases  |-> [kk \in 1..Len(Polys) |->
        LET cp == Polys[kk]  pp == Len(cp) - 1 IN
        [cp |-> cp,
         eval  |-> [nn \in 1..Len(NodeSeq) |-> <<EvalNum(cp, NodeSeq[nn]), Pow(NodeSeq[nn][2], pp)>>],
         deriv |-> [nn \in 1..Len(NodeSeq) |-> <<EvalNum(DerivCP(cp), NodeSeq[nn]), Pow(NodeSeq[nn][2], pp-1)>>],
         dcp   |-> DerivCP(cp),
         left  |-> [nn \in 1..Len(NodeSeq) |-> [ii \in 1..(pp+1) |-> <<LeftNum(cp, ii-1, NodeSeq[nn]), Pow(NodeSeq[nn][2], ii-1)>>]],
         right |-> [nn \in 1..Len(NodeSeq) |-> [ii \in 1..(pp+1) |-> <<RightNum(cp, ii-1, NodeSeq[nn]), Pow(NodeSeq[nn][2], pp-ii+1)>>]]]]]
ASSUME JsonSerialize(IOEnv.VERIF_OUT, Export)
=============================================================================
