----------------------------- MODULE TraceGeneric -----------------------------
(***************************************************************************)
(* Code -> spec validation of executions that were NOT designed for this   *)
(* framework: the client-level calls made by the repository's own test-    *)
(* suite.  The plane is abstracted by a fixed generic lattice of NW        *)
(* witness points (a Venn universe: the free Boolean algebra on points);   *)
(* an object is abstracted to its SIGNATURE, the set of witness points it  *)
(* contains, computed by the recorder with an independent classifier from  *)
(* the control points.  The model keeps what it believes every object      *)
(* denotes (sig) and accepts an event iff it is an action of the abstract  *)
(* set-algebra machine:                                                    *)
(*   bin    res = op(sig a, sig b) on the witnesses that are not too close *)
(*          to a boundary; operands keep their signature                   *)
(*   inv    res = complement;   copy  res = same signature, fresh object    *)
(*   in     an answer TRUE implies sig b \subseteq sig a                    *)
(*   eq     an answer TRUE implies equal signatures; must be a boolean      *)
(*   inplace (move / scale / rotate / invert) the target's signature is     *)
(*          re-read; nothing else changes                                   *)
(* and every object not taking part in a call keeps its signature.          *)
(* This is the CCF lesson: existing tests already execute interesting       *)
(* behaviour that their assertions do not look at.                          *)
(***************************************************************************)
EXTENDS Integers, Sequences, FiniteSets, TLC, Json, IOUtils, Functions

Data == JsonDeserialize(IOEnv.TRACE_FILE)
Traces == Data.traces
NW == Data.nw
Wit == 1..NW

VARIABLES tix, lix, sig, bad
gvars == <<tix, lix, sig, bad>>

ToSet(sq) == {sq[kk] : kk \in 1..Len(sq)}
Events == Traces[tix].events
Ev == Events[lix]
Known(dd) == dd.id \in DOMAIN sig
\* witnesses on which an assertion about the objects ds may be judged
Clear(ds) == Wit \ UNION {ToSet(dd.unk) : dd \in ds}

\* an object seen for the first time is taken as given
Learn(ss, ds) == [ii \in DOMAIN ss \cup {dd.id : dd \in ds} |->
                    IF ii \in DOMAIN ss THEN ss[ii] ELSE ToSet((CHOOSE dd \in ds : dd.id = ii).sig)]

OpSig(nm, sa, sb) == CASE nm \in {"__or__", "__add__"} -> sa \cup sb
                       [] nm \in {"__and__", "__mul__"} -> sa \cap sb
                       [] nm = "__sub__" -> sa \ sb
                       [] nm = "__xor__" -> (sa \ sb) \cup (sb \ sa)

\* the operands, before and after the call, denote what the model believes (C08)
OperandsKept(ev, s0) ==
    /\ \A kk \in 1..Len(ev.pre) : LET dd == ev.pre[kk] IN ToSet(dd.sig) \cap Clear({dd}) = s0[dd.id] \cap Clear({dd})
    /\ ev.ev # "inplace" => \A kk \in 1..Len(ev.post) : LET dd == ev.post[kk] IN ToSet(dd.sig) \cap Clear({dd}) = s0[dd.id] \cap Clear({dd})

Step ==
    LET ev == Ev
        s0 == Learn(sig, ToSet(ev.pre))
    IN
    /\ ev.ev # "recorder-error"
    /\ OperandsKept(ev, s0)
    /\ \/ /\ ev.out # "returned"                               \* a raise changes nothing
          /\ sig' = s0
       \/ /\ ev.out = "returned" /\ ev.ev = "bin" /\ "res" \in DOMAIN ev
          /\ LET cl == Clear({ev.pre[1], ev.pre[2], ev.res}) IN
             ToSet(ev.res.sig) \cap cl = OpSig(ev.name, s0[ev.pre[1].id], s0[ev.pre[2].id]) \cap cl       \* C01
          /\ (ev.res.kind = "E" => ToSet(ev.res.sig) = {}) /\ (ev.res.kind = "W" => ToSet(ev.res.sig) = Wit)
          /\ (ev.res.kind \notin {"E", "W"} => ev.res.id \notin DOMAIN s0)                                 \* fresh object
          /\ sig' = [ii \in DOMAIN s0 \cup {ev.res.id} |-> IF ii = ev.res.id THEN ToSet(ev.res.sig) ELSE s0[ii]]
       \/ /\ ev.out = "returned" /\ ev.ev = "inv" /\ "res" \in DOMAIN ev
          /\ LET cl == Clear({ev.pre[1], ev.res}) IN ToSet(ev.res.sig) \cap cl = (Wit \ s0[ev.pre[1].id]) \cap cl
          /\ (ev.res.kind \notin {"E", "W"} => ev.res.id \notin DOMAIN s0)
          /\ sig' = [ii \in DOMAIN s0 \cup {ev.res.id} |-> IF ii = ev.res.id THEN ToSet(ev.res.sig) ELSE s0[ii]]
       \/ /\ ev.out = "returned" /\ ev.ev = "copy" /\ "res" \in DOMAIN ev
          /\ LET cl == Clear({ev.pre[1], ev.res}) IN ToSet(ev.res.sig) \cap cl = s0[ev.pre[1].id] \cap cl
          /\ (ev.res.kind \notin {"E", "W"} => ev.res.id \notin DOMAIN s0)
          /\ sig' = [ii \in DOMAIN s0 \cup {ev.res.id} |-> IF ii = ev.res.id THEN ToSet(ev.res.sig) ELSE s0[ii]]
       \/ /\ ev.out = "returned" /\ ev.ev = "in"
          /\ ev.ans \in BOOLEAN
          /\ ev.ans => LET cl == Clear({ev.pre[1], ev.pre[2]}) IN (s0[ev.pre[2].id] \cap cl) \subseteq s0[ev.pre[1].id]   \* C03
          /\ sig' = s0
       \/ /\ ev.out = "returned" /\ ev.ev = "eq"
          /\ ev.ans \in BOOLEAN                                                                                \* C07
          /\ (ev.ans /\ ev.other_is_shape) => LET cl == Clear({ev.pre[1], ev.pre[2]}) IN s0[ev.pre[1].id] \cap cl = s0[ev.pre[2].id] \cap cl
          /\ sig' = s0
       \/ /\ ev.out = "returned" /\ ev.ev = "inplace"
          /\ "res" \in DOMAIN ev => ev.res.id = ev.pre[1].id                                                   \* returns the same object
          /\ sig' = [s0 EXCEPT ![ev.pre[1].id] = ToSet(ev.post[1].sig)]
          /\ ev.name = "invert" => LET cl == Clear({ev.pre[1], ev.post[1]}) IN ToSet(ev.post[1].sig) \cap cl = (Wit \ s0[ev.pre[1].id]) \cap cl

TraceStep == /\ ~bad /\ lix <= Len(Events) /\ Step /\ lix' = lix + 1 /\ UNCHANGED <<tix, bad>>
Reject    == /\ ~bad /\ lix <= Len(Events) /\ ~ENABLED TraceStep
             /\ bad' = TRUE /\ UNCHANGED <<tix, lix, sig>>
GInit == tix \in 1..Len(Traces) /\ lix = 1 /\ sig = <<>> /\ bad = FALSE
GNext == TraceStep \/ Reject
GSpec == GInit /\ [][GNext]_gvars

Accepted == ~bad
AllConsumed == TLCGet("distinct") = Len(Traces) + FoldFunction(LAMBDA tr, acc : acc + Len(tr.events), 0, Traces)
=============================================================================
