------------------------------- MODULE Prims -------------------------------
(***************************************************************************)
(* Decision table of the primitive factories (C16): the product of         *)
(* parameter classes is mapped to "ValueError" or to the abstract contract *)
(* of the returned shape.  TLC enumerates the product, checks that the     *)
(* table is total and monotone (an invalid class in any position forces    *)
(* ValueError) and exports it; the harness instantiates every class with   *)
(* several concrete values and compares outcome and contract with closed-  *)
(* form geometry (trigonometry lives in the harness, see DESIGN.md 10).    *)
(***************************************************************************)
EXTENDS Integers, Sequences, FiniteSets, TLC, Json, IOUtils, SequencesExt

Factories == {"square", "triangle", "regular", "circle"}
SizeCls   == {"posint", "posfrac", "posfloat", "zero", "neg", "str", "none"}
CentreCls == {"origin", "int", "frac", "float", "bad"}
CountCls  == {"1", "2", "3", "4", "5", "7", "16", "64", "3.0", "str"}    \* nsides / ndivangle

ValidSize(sc)   == sc \in {"posint", "posfrac", "posfloat"}
ValidCentre(cc) == cc # "bad"
CountVal(nc) == CASE nc = "1" -> 1 [] nc = "2" -> 2 [] nc = "3" -> 3 [] nc = "4" -> 4 [] nc = "5" -> 5
                  [] nc = "7" -> 7 [] nc = "16" -> 16 [] nc = "64" -> 64 [] OTHER -> -1
ValidCount(ff, nc) == IF ff = "regular" THEN CountVal(nc) >= 3
                      ELSE IF ff = "circle" THEN CountVal(nc) >= 4 ELSE TRUE

Outcome(ff, sc, cc, nc) ==
    IF ValidSize(sc) /\ ValidCentre(cc) /\ ValidCount(ff, nc)
    THEN [out |-> "ok", kind |-> "S", ccw |-> TRUE,
          nverts |-> CASE ff = "square" -> 4 [] ff = "triangle" -> 3 [] ff = "regular" -> CountVal(nc)
                       [] ff = "circle" -> 2 * CountVal(nc),          \* quadratic pieces: 2 control points each
          nsegs  |-> CASE ff = "square" -> 4 [] ff = "triangle" -> 3 [] OTHER -> CountVal(nc),
          degree |-> IF ff = "circle" THEN 2 ELSE 1,
          exact  |-> (ff \in {"square", "triangle"} \/ (ff = "regular" /\ nc = "4")) /\ sc # "posfloat" /\ cc # "float"]
    ELSE [out |-> "ValueError"]

Cases == {<<ff, sc, cc, nc>> \in Factories \X SizeCls \X CentreCls \X CountCls :
             (ff \in {"square", "triangle"}) => nc = "4"}
\* an invalid class in any one position forces ValueError whatever the others are
ThmMonotone == \A cs \in Cases :
    (~ValidSize(cs[2]) \/ ~ValidCentre(cs[3]) \/ ~ValidCount(cs[1], cs[4])) <=> Outcome(cs[1], cs[2], cs[3], cs[4]).out = "ValueError"
ThmContract == \A cs \in Cases : LET oo == Outcome(cs[1], cs[2], cs[3], cs[4]) IN
    oo.out = "ok" => (oo.kind = "S" /\ oo.ccw /\ oo.nsegs >= 3)
ASSUME ThmMonotone /\ ThmContract
ASSUME JsonSerialize(IOEnv.VERIF_OUT, [cases |-> SetToSeq({[f |-> cs[1], size |-> cs[2], centre |-> cs[3], count |-> cs[4],
                                                            res |-> Outcome(cs[1], cs[2], cs[3], cs[4])] : cs \in Cases})])
=============================================================================
