------------------------------- MODULE Curves -------------------------------
(***************************************************************************)
(* The four constructors of a closed curve (C17).  A description of a      *)
(* curve is a chain of segments <<start, end>> over abstract points        *)
(* 1..NPts.  JordanCurve.from_segments / from_ctrlpoints accept a chain    *)
(* iff it is closed: the end of every segment is the start of the next     *)
(* (cyclically).  from_vertices builds the chain of consecutive vertices,  *)
(* which is closed by construction.  All accepted descriptions of one      *)
(* vertex cycle denote the same curve.  TLC enumerates every chain of      *)
(* length <= MaxLen and exports it with the verdict; the harness realises  *)
(* the points and replays every chain through the real constructors.       *)
(***************************************************************************)
EXTENDS Integers, Sequences, FiniteSets, TLC, Json, IOUtils, SequencesExt

CONSTANTS NPts, MaxLen

Seg == {ss \in (1..NPts) \X (1..NPts) : ss[1] # ss[2]}
Chains == UNION {[1..nn -> Seg] : nn \in 2..MaxLen}
Closed(ch) == \A kk \in 1..Len(ch) : ch[kk][2] = ch[(kk % Len(ch)) + 1][1]
FromVertices(vs) == [kk \in 1..Len(vs) |-> <<vs[kk], vs[(kk % Len(vs)) + 1]>>]
VertexCycle(ch) == [kk \in 1..Len(ch) |-> ch[kk][1]]
\* an open chain has a gap, described by the first index where it breaks
FirstGap(ch) == CHOOSE kk \in 1..Len(ch) : ch[kk][2] # ch[(kk % Len(ch)) + 1][1] /\ \A k2 \in 1..(kk-1) : ch[k2][2] = ch[(k2 % Len(ch)) + 1][1]

\* theorems: from_vertices is always closed and round-trips; a closed chain is determined
\* by its vertex cycle; reversing one segment of a closed chain opens it
ThmVertices == \A vs \in UNION {[1..nn -> 1..NPts] : nn \in 3..MaxLen} :
                  (\A kk \in 1..Len(vs) : vs[kk] # vs[(kk % Len(vs)) + 1]) =>
                      /\ Closed(FromVertices(vs)) /\ VertexCycle(FromVertices(vs)) = vs
ThmDetermined == \A ch \in Chains : Closed(ch) => FromVertices(VertexCycle(ch)) = ch
ThmReverse == \A ch \in Chains : (Closed(ch) /\ Len(ch) >= 3) =>
                  \A kk \in 1..Len(ch) : ~Closed([ch EXCEPT ![kk] = <<ch[kk][2], ch[kk][1]>>])
ASSUME ThmVertices /\ ThmDetermined /\ ThmReverse

Export == [chains |-> SetToSeq({[chain |-> ch, closed |-> Closed(ch)] : ch \in Chains})]
ASSUME JsonSerialize(IOEnv.VERIF_OUT, Export)
=============================================================================
